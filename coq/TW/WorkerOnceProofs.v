(* Exactly-once cancellation and absence of the error flag on the worker model, for every script and every program whose
   event types stay below the reserved ones and whose destinations are hosted LPs (Part B: the worker's operations keep the
   location predicate of TW/WorkerOnce.v). *)
From Coq Require Import List ZArith NArith PArith Bool Arith Lia Sorted Permutation FMapPositive.
From RS Require Import Order.MsgOrderDefs Heap.HeapList Heap.HeapListProofs Heap.HeapTime TW.App TW.Seq TW.Worker TW.WorkerProofs TW.WorkerSafety TW.WorkerOnce.
Import ListNotations.
From AAC_tactics Require Import AAC.
From AAC_tactics Require Instances.
Import Instances.Lists.

Lemma perm_pull1 {A} (h a b r : list A) : Permutation (h ++ (a ++ b) ++ r) (a ++ h ++ b ++ r).
Proof. aac_reflexivity. Qed.
Lemma perm_pull2 {A} (h a b r : list A) : Permutation (h ++ (a ++ b) ++ r) (b ++ h ++ a ++ r).
Proof. aac_reflexivity. Qed.
Lemma perm_rot3 {A} (a b c : list A) : Permutation (a ++ b ++ c) ((c ++ a) ++ b).
Proof. aac_reflexivity. Qed.
Lemma perm_pull2' {A} (a b r : list A) : Permutation ((a ++ b) ++ r) (b ++ a ++ r).
Proof. aac_reflexivity. Qed.

Definition procs_of (h : list entry) : list wmsg := flat_map (fun e => match e with EProc m => [m] | ESent _ => [] end) h.
Definition marks_of (h : list entry) : list wmsg := flat_map (fun e => match e with ESent m => [m] | EProc _ => [] end) h.
Definition allprocs (lps : list lpx) : list wmsg := flat_map (fun x => procs_of (x_hist x)) lps.
Definition allmarks (lps : list lpx) : list wmsg := flat_map (fun x => marks_of (x_hist x)) lps.

Lemma procs_app a b : procs_of (a ++ b) = procs_of a ++ procs_of b.
Proof. apply flat_map_app. Qed.
Lemma marks_app a b : marks_of (a ++ b) = marks_of a ++ marks_of b.
Proof. apply flat_map_app. Qed.
Lemma in_procs h m : In m (procs_of h) <-> In (EProc m) h.
Proof.
  unfold procs_of. rewrite in_flat_map. split.
  - intros [e [He Hm]]. destruct e as [x|x]; [destruct Hm|]. destruct Hm as [<-|[]]. exact He.
  - intros H. exists (EProc m). split; [exact H|left; reflexivity].
Qed.
Lemma in_marks h m : In m (marks_of h) <-> In (ESent m) h.
Proof.
  unfold marks_of. rewrite in_flat_map. split.
  - intros [e [He Hm]]. destruct e as [x|x]; [|destruct Hm]. destruct Hm as [<-|[]]. exact He.
  - intros H. exists (ESent m). split; [exact H|left; reflexivity].
Qed.
Lemma procs_sent ms : all_sent ms -> procs_of ms = [].
Proof. induction 1 as [|e r He _ IH]; [reflexivity|]. destruct e; [exact IH|discriminate]. Qed.

(* singling out one LP *)
Definition rest {B} (g : lpx -> list B) (lps : list lpx) (l : nat) : list B := flat_map g (firstn l lps) ++ flat_map g (skipn (S l) lps).
Lemma split_lp {B} (g : lpx -> list B) lps l : l < length lps -> Permutation (flat_map g lps) (g (nth l lps lpx_dummy) ++ rest g lps l).
Proof.
  revert l. induction lps as [|x r IH]; intros l Hl; cbn in Hl; [lia|]. destruct l as [|l].
  - cbn. unfold rest. cbn. apply Permutation_refl.
  - cbn [flat_map nth]. unfold rest. cbn [firstn skipn flat_map]. specialize (IH l ltac:(lia)). unfold rest in IH.
    rewrite <- app_assoc. eapply perm_trans; [apply Permutation_app_head; exact IH|].
    rewrite !app_assoc. apply Permutation_app_tail. apply Permutation_app_tail. apply Permutation_app_comm.
Qed.
Lemma split_lp_set {B} (g : lpx -> list B) lps l x : l < length lps -> Permutation (flat_map g (set_nth lps l x)) (g x ++ rest g lps l).
Proof.
  revert l. induction lps as [|y r IH]; intros l Hl; cbn in Hl; [lia|]. destruct l as [|l].
  - cbn. unfold rest. cbn. apply Permutation_refl.
  - cbn [flat_map set_nth]. unfold rest. cbn [firstn skipn flat_map]. specialize (IH l ltac:(lia)). unfold rest in IH.
    rewrite <- app_assoc. eapply perm_trans; [apply Permutation_app_head; exact IH|].
    rewrite !app_assoc. apply Permutation_app_tail. apply Permutation_app_tail. apply Permutation_app_comm.
Qed.

Lemma pend_insert w m : pend (wq_insert w m) = m :: pend w.
Proof. reflexivity. Qed.

Definition once (w : worker) (hand : list wmsg) : Prop :=
  Loc (k_gvt w) (k_flags w) (pend w) (hand ++ allprocs (k_lps w)) (allmarks (k_lps w)) (k_next w).

(* ---------- send_anti_messages ---------- *)
Lemma m32_small x : (x < 4294967296)%N -> m32 x = x.
Proof. intros H. unfold m32. apply N.mod_small. exact H. Qed.

Lemma undo_all_loc es : forall w pr mk,
  Loc (k_gvt w) (k_flags w) (pend w) (procs_of es ++ pr) (marks_of es ++ mk) (k_next w) ->
  (forall m, In (ESent m) es -> (k_gvt w <= Z.of_N (tm m))%Z) ->
  let w' := fold_left undo_entry es w in
  Loc (k_gvt w') (k_flags w') (pend w') pr mk (k_next w') /\ k_next w' = k_next w.
Proof.
  induction es as [|e es IH]; intros w pr mk HL Hge; cbn [fold_left].
  - split; [exact HL|reflexivity].
  - destruct e as [m|m].
    + (* a marker *)
      change (procs_of (ESent m :: es)) with (procs_of es) in HL.
      change (marks_of (ESent m :: es) ++ mk) with (m :: (marks_of es ++ mk)) in HL.
      assert (Hgm : (k_gvt w <= Z.of_N (tm m))%Z) by (apply Hge; left; reflexivity).
      assert (Hstep : let w1 := undo_entry w (ESent m) in
                      Loc (k_gvt w1) (k_flags w1) (pend w1) (procs_of es ++ pr) (marks_of es ++ mk) (k_next w1) /\ k_next w1 = k_next w /\ k_gvt w1 = k_gvt w).
      { destruct (Loc_unmark _ _ _ _ _ _ _ HL Hgm) as [[Hf HL']|[Hf HL']]; cbn zeta; unfold undo_entry, flag_add; fold (fl (k_flags w) m); rewrite Hf.
        - cbn. split; [exact HL'|split; reflexivity].
        - cbn. split; [exact HL'|split; reflexivity]. }
      cbn zeta in Hstep. destruct Hstep as (H1 & H2 & H3).
      destruct (IH (undo_entry w (ESent m)) pr mk H1) as [H4 H5].
      { intros x Hx. rewrite H3. apply Hge. right. exact Hx. }
      split; [exact H4|rewrite H5; exact H2].
    + (* a processed message *)
      change (marks_of (EProc m :: es)) with (marks_of es) in HL.
      change (procs_of (EProc m :: es) ++ pr) with (m :: (procs_of es ++ pr)) in HL.
      assert (Hstep : let w1 := undo_entry w (EProc m) in
                      Loc (k_gvt w1) (k_flags w1) (pend w1) (procs_of es ++ pr) (marks_of es ++ mk) (k_next w1) /\ k_next w1 = k_next w /\ k_gvt w1 = k_gvt w).
      { destruct (Loc_unproc _ _ _ _ _ _ _ HL) as [[Hf HL']|[[Hf HL']|[Hf HL']]]; cbn zeta; unfold undo_entry, flag_sub; fold (fl (k_flags w) m); rewrite Hf.
        - cbn. split; [exact HL'|split; reflexivity].
        - cbn. split; [exact HL'|split; reflexivity].
        - cbn. split; [exact HL'|split; reflexivity]. }
      cbn zeta in Hstep. destruct Hstep as (H1 & H2 & H3).
      destruct (IH (undo_entry w (EProc m)) pr mk H1) as [H4 H5].
      { intros x Hx. rewrite H3. apply Hge. right. exact Hx. }
      split; [exact H4|rewrite H5; exact H2].
Qed.

Section OnceProofs.
Variable p : prog.
Variable ck : nat.
Hypothesis H_time : forall ev st e, In e (snd (handle p ev st)) -> (e_t ev <= e_t e)%N.

Lemma base_eq x newer r0 s0 : x_logs x = newer ++ [(r0, s0)] -> base x = (r0, s0).
Proof. intros E. unfold base. rewrite E. apply last_last. Qed.

(* the markers of undone groups are not earlier than the earliest undone processed message *)
Lemma undone_ge x past (lo : N) : lp_ok2 p x -> bnd (x_hist x) past -> fst (base x) <= past -> past <= length (x_hist x) ->
  (forall m, In (EProc m) (skipn past (x_hist x)) -> (lo <= tm m)%N) ->
  forall m, In (ESent m) (skipn past (x_hist x)) -> (lo <= tm m)%N.
Proof.
  intros [(newer & r0 & s0 & El & Hs & Hsn & Hst) [Hh Hb]] Hbnd Hr0 Hpl Hproc.
  rewrite (base_eq x newer r0 s0 El) in Hh, Hr0. cbn [fst snd] in Hh, Hr0.
  destruct (hist_ok_bnd p (skipn r0 (x_hist x)) s0 (past - r0) Hh) as [_ H2].
  { apply bnd_skipn; [exact Hbnd|exact Hr0]. }
  { rewrite skipn_length. lia. }
  rewrite skipn_skipn in H2. replace (past - r0 + r0) with past in H2 by lia.
  destruct (hist_ok_sent_ge p H_time _ _ [] lo H2 Hproc) as [_ Hsent]. exact Hsent.
Qed.

Lemma drop_newer_some x past : lp_ok p x -> fst (base x) <= past -> drop_newer (x_logs x) past <> [].
Proof.
  intros (newer & r0 & s0 & El & Hs & Hsn & Hst) Hr0 Hd.
  rewrite (base_eq x newer r0 s0 El) in Hr0. cbn [fst] in Hr0.
  pose proof (drop_newer_spec (x_logs x) past Hs) as Hspec. rewrite Hd in Hspec.
  specialize (Hspec (r0, s0) ltac:(rewrite El; apply in_or_app; right; left; reflexivity)). cbn [fst] in Hspec. lia.
Qed.

Lemma get_lp_set w l x : l < length (k_lps w) -> get_lp (put_lp w l x) l = x.
Proof. intros Hl. unfold get_lp. cbn [put_lp set_lps k_lps]. apply nth_set_nth. exact Hl. Qed.

Lemma do_rollback_once w l past (lo : N) hand :
  all_ok2 p w -> l < length (k_lps w) ->
  bnd (x_hist (get_lp w l)) past -> fst (base (get_lp w l)) <= past -> past <= length (x_hist (get_lp w l)) ->
  (k_gvt w <= Z.of_N lo)%Z ->
  (forall m, In (EProc m) (skipn past (x_hist (get_lp w l))) -> (lo <= tm m)%N) ->
  once w hand ->
  let w' := do_rollback p w l past in
  k_err w' = k_err w /\ once w' hand /\ k_next w' = k_next w /\ k_gvt w' = k_gvt w /\
  (forall y, In y (pend w') -> In y (pend w) \/ In (EProc y) (skipn past (x_hist (get_lp w l))) \/ In (ESent y) (skipn past (x_hist (get_lp w l)))).
Proof.
  intros Hok Hl Hbnd Hr0 Hpl Hlo Hproc HL.
  set (x := get_lp w l) in *. set (es := skipn past (x_hist x)). set (keep := firstn past (x_hist x)).
  assert (Hx2 : lp_ok2 p x) by (apply get_ok2; assumption).
  pose proof (undone_ge x past lo Hx2 Hbnd Hr0 Hpl Hproc) as Hsent.
  assert (Ehist : x_hist x = keep ++ es) by (symmetry; apply firstn_skipn).
  (* regroup the lists around the undone entries *)
  assert (HL1 : Loc (k_gvt w) (k_flags w) (pend w) (procs_of es ++ (hand ++ procs_of keep ++ rest (fun y => procs_of (x_hist y)) (k_lps w) l))
                    (marks_of es ++ (marks_of keep ++ rest (fun y => marks_of (x_hist y)) (k_lps w) l)) (k_next w)).
  { eapply Loc_perm; [exact HL|apply Permutation_refl| |].
    - unfold allprocs. eapply perm_trans; [apply Permutation_app_head; apply (split_lp (fun y => procs_of (x_hist y)) (k_lps w) l Hl)|].
      fold (get_lp w l). fold x. rewrite Ehist, procs_app. apply perm_pull2.
    - unfold allmarks. eapply perm_trans; [apply (split_lp (fun y => marks_of (x_hist y)) (k_lps w) l Hl)|].
      fold (get_lp w l). fold x. rewrite Ehist, marks_app. apply perm_pull2'. }
  destruct (undo_all_loc es w _ _ HL1) as [HL2 Enx].
  { intros m Hm. specialize (Hsent m Hm). lia. }
  destruct (undo_all_frame es w) as (B1 & B2 & B3 & B4 & B5 & B6). cbn zeta in *.
  unfold do_rollback. fold x. fold es. fold keep.
  set (w1 := fold_left undo_entry es w) in *.
  assert (E1 : k_lps w1 = k_lps w) by apply undo_all_lps.
  assert (Eerr : k_err w1 = k_err w) by apply undo_all_err.
  pose proof (drop_newer_some x past (proj1 Hx2) Hr0) as Hne.
  destruct (drop_newer (x_logs x) past) as [|[ref snap] older]; [congruence|].
  cbn [put_lp set_lps k_err k_next k_gvt]. split; [exact Eerr|]. split; [|split; [exact Enx|split; [exact B1|]]].
  - unfold once. cbn [put_lp set_lps k_gvt k_flags k_lps k_next]. change (pend (set_lps w1 _)) with (pend w1).
    eapply Loc_perm; [exact HL2|apply Permutation_refl| |].
    + apply Permutation_app_head. unfold allprocs. rewrite E1. apply Permutation_sym.
      match goal with |- Permutation (flat_map _ (set_nth _ _ ?X)) _ => exact (split_lp_set (fun y => procs_of (x_hist y)) (k_lps w) l X Hl) end.
    + unfold allmarks. rewrite E1. apply Permutation_sym.
      match goal with |- Permutation (flat_map _ (set_nth _ _ ?X)) _ => exact (split_lp_set (fun y => marks_of (x_hist y)) (k_lps w) l X Hl) end.
  - intros y Hy. change (pend (set_lps w1 _)) with (pend w1) in Hy. destruct (B6 y Hy) as [H|H]; [left; exact H|right].
    apply in_map_iff in H. destruct H as (e & <- & He). destruct e as [m|m]; cbn [entry_msg]; [right|left]; exact He.
Qed.

(* ---------- ScheduleNewEvent ---------- *)
Lemma send_all_once outs : forall w acc pr mk,
  Loc (k_gvt w) (k_flags w) (pend w) pr mk (k_next w) ->
  exists news, snd (send_all w outs acc) = rev acc ++ map ESent news /\ map wm_ev news = outs /\
    (forall y, In y (pend (fst (send_all w outs acc))) <-> In y news \/ In y (pend w)) /\
    Loc (k_gvt (fst (send_all w outs acc))) (k_flags (fst (send_all w outs acc))) (pend (fst (send_all w outs acc))) pr (news ++ mk)
        (k_next (fst (send_all w outs acc))).
Proof.
  induction outs as [|e r IH]; intros w acc pr mk HL; cbn [send_all].
  - exists []. cbn [fst snd map app]. rewrite app_nil_r. split; [reflexivity|]. split; [reflexivity|]. split; [|exact HL].
    intros y. cbn [In]. tauto.
  - set (m := mkWm (k_next w) e).
    match goal with |- context [send_all ?w0 r ?a] => set (w1 := w0) end.
    assert (HL1 : Loc (k_gvt w1) (k_flags w1) (pend w1) pr (m :: mk) (k_next w1)).
    { unfold w1. cbn [k_gvt k_flags k_next]. change (pend _) with (m :: pend w). apply Loc_fresh. exact HL. }
    destruct (IH w1 (ESent m :: acc) pr (m :: mk) HL1) as (news & E1 & E2 & E3 & E4).
    exists (m :: news). split; [|split; [|split]].
    + rewrite E1. cbn [rev map]. rewrite <- app_assoc. reflexivity.
    + cbn [map]. rewrite E2. reflexivity.
    + intros y. rewrite E3. change (pend w1) with (m :: pend w). cbn [In]. tauto.
    + eapply Loc_perm; [exact E4|apply Permutation_refl|apply Permutation_refl|].
      cbn [app]. apply Permutation_sym. apply Permutation_middle.
Qed.

Lemma procs_map_sent news : procs_of (map ESent news) = [].
Proof. induction news; [reflexivity|exact IHnews]. Qed.
Lemma marks_map_sent news : marks_of (map ESent news) = news.
Proof. induction news as [|a r IH]; [reflexivity|]. cbn [map]. change (marks_of (ESent a :: map ESent r)) with (a :: marks_of (map ESent r)). rewrite IH. reflexivity. Qed.

(* forward execution of the message in hand *)
Lemma forward_once w l m : l < length (k_lps w) -> once w [m] ->
  once (forward p ck w l m) [] /\
  (forall y, In y (pend (forward p ck w l m)) -> In y (pend w) \/ In (wm_ev y) (snd (handle p (wm_ev m) (x_st (get_lp w l))))).
Proof.
  intros Hl HL. unfold forward.
  destruct (handle p (wm_ev m) (x_st (get_lp w l))) as [st' outs] eqn:Eh.
  destruct (send_all_once outs w [] _ _ HL) as (news & E1 & E2 & E3 & E4).
  pose proof (send_all_lps outs w []) as Elps.
  destruct (send_all w outs []) as [w1 marks]. cbn [fst snd] in *. cbn [rev app] in E1. subst marks.
  split.
  - unfold once. cbn [put_lp set_lps k_gvt k_flags k_lps k_next]. change (pend (set_lps w1 _)) with (pend w1).
    eapply Loc_perm; [exact E4|apply Permutation_refl| |].
    + cbn [app]. unfold allprocs. rewrite Elps. apply Permutation_sym.
      match goal with |- Permutation (flat_map _ (set_nth _ _ ?X)) _ => eapply perm_trans; [exact (split_lp_set (fun y => procs_of (x_hist y)) (k_lps w) l X Hl)|] end.
      cbn [x_hist]. rewrite !procs_app, procs_map_sent. cbn [app procs_of flat_map].
      apply Permutation_sym. rewrite <- app_assoc. cbn [app]. apply Permutation_cons_app.
      apply (split_lp (fun y => procs_of (x_hist y)) (k_lps w) l Hl).
    + unfold allmarks. rewrite Elps. apply Permutation_sym.
      match goal with |- Permutation (flat_map _ (set_nth _ _ ?X)) _ => eapply perm_trans; [exact (split_lp_set (fun y => marks_of (x_hist y)) (k_lps w) l X Hl)|] end.
      cbn [x_hist]. rewrite !marks_app, marks_map_sent. cbn [app marks_of flat_map]. rewrite app_nil_r.
      eapply perm_trans; [|apply Permutation_app_head; apply Permutation_sym; apply (split_lp (fun y => marks_of (x_hist y)) (k_lps w) l Hl)].
      fold (get_lp w l). rewrite app_assoc. apply Permutation_app_tail. apply Permutation_app_comm.
  - intros y Hy. change (pend (put_lp w1 _ _)) with (pend w1) in Hy. apply E3 in Hy. destruct Hy as [Hy|Hy]; [right|left; exact Hy].
    cbn [snd]. rewrite <- E2. apply in_map. exact Hy.
Qed.

(* ---------- the base of an LP's history: index 0 after a fossil collection, the LP_INIT message before ---------- *)
Definition lp_base (x : lpx) : Prop :=
  fst (base x) = 0 \/
  exists marks im, firstn (fst (base x)) (x_hist x) = marks ++ [EProc im] /\ all_sent marks /\
                   e_type (wm_ev im) = LP_INIT_TYPE /\ e_t (wm_ev im) = 0%N /\ e_pl (wm_ev im) = [].

Lemma base_le_len x : lp_ok p x -> fst (base x) <= length (x_hist x).
Proof.
  intros (newer & r0 & s0 & El & Hs & Hsn & Hst). rewrite (base_eq x newer r0 s0 El). cbn [fst].
  apply (Hsn r0 s0). rewrite El. apply in_or_app. right. left. reflexivity.
Qed.

Lemma base_proc_index x j m : lp_ok p x -> lp_base x -> nth_error (x_hist x) j = Some (EProc m) -> fst (base x) <= S j.
Proof.
  intros Hok [H0|(marks & im & Ef & Hs & _)] Hn; [lia|].
  pose proof (base_le_len x Hok) as Hle.
  assert (Hlen : fst (base x) = length marks + 1).
  { rewrite <- (firstn_length_le (x_hist x) Hle). rewrite Ef, app_length. reflexivity. }
  destruct (Nat.lt_ge_cases j (length marks)) as [Hlt|Hge]; [exfalso|lia].
  assert (E : nth_error (firstn (fst (base x)) (x_hist x)) j = Some (EProc m)).
  { rewrite nth_error_firstn_lt by lia. exact Hn. }
  rewrite Ef, nth_error_app1 in E by exact Hlt. apply nth_error_In in E.
  unfold all_sent in Hs. rewrite Forall_forall in Hs. specialize (Hs _ E). discriminate.
Qed.

Lemma Loc_release_all g f pd mk nx rel : forall pr, Loc g f pd (rel ++ pr) mk nx ->
  (forall m, In m rel -> (Z.of_N (tm m) < g)%Z) -> (forall x, In x pd -> (g <= Z.of_N (tm x))%Z) -> Loc g f pd pr mk nx.
Proof.
  induction rel as [|m rel IH]; intros pr HL Hlt Hge; [exact HL|].
  apply IH; [|intros y Hy; apply Hlt; right; exact Hy|exact Hge].
  apply (Loc_release g f m); [exact HL|apply Hlt; left; reflexivity|exact Hge].
Qed.
Lemma Loc_drop_marks g f pd pr nx rel : forall mk, Loc g f pd pr (rel ++ mk) nx -> Loc g f pd pr mk nx.
Proof.
  induction rel as [|m rel IH]; intros mk HL; [exact HL|]. apply IH. apply (Loc_drop_mark g f m). exact HL.
Qed.

Lemma fossil_kept x tgt ref snap older : StronglySorted decr (x_logs x) -> drop_newer (x_logs x) tgt = (ref, snap) :: older ->
  exists pre, firstn (length (x_logs x) - length (drop_newer (x_logs x) tgt) + 1) (x_logs x) = pre ++ [(ref, snap)].
Proof.
  intros Hs Hd. pose proof (drop_newer_spec (x_logs x) tgt Hs) as Hspec. rewrite Hd in Hspec.
  destruct Hspec as (pre & E & Hle & Hpre). exists pre.
  rewrite Hd. rewrite E at 1 2. rewrite app_length. cbn [length].
  replace (length pre + S (length older) - S (length older) + 1) with (length (pre ++ [(ref, snap)])) by (rewrite app_length; cbn; lia).
  replace (pre ++ (ref, snap) :: older) with ((pre ++ [(ref, snap)]) ++ older) by (rewrite <- app_assoc; reflexivity).
  rewrite firstn_app, firstn_all, Nat.sub_diag, firstn_O, app_nil_r. reflexivity.
Qed.

(* per-LP fossil collection: no error, the location predicate is kept (for any pending list above the GVT), the new base is 0 *)
Lemma fossil_once w l pd hand :
  all_ok2 p w -> Forall lp_time (k_lps w) -> l < length (k_lps w) -> lp_base (get_lp w l) ->
  Loc (k_gvt w) (k_flags w) pd (hand ++ allprocs (k_lps w)) (allmarks (k_lps w)) (k_next w) ->
  (forall y, In y pd -> (k_gvt w <= Z.of_N (tm y))%Z) ->
  let w' := fossil_lp w l in
  k_err w' = k_err w /\ k_gvt w' = k_gvt w /\ k_flags w' = k_flags w /\ k_next w' = k_next w /\ pend w' = pend w /\
  length (k_lps w') = length (k_lps w) /\ k_epoch w' = k_epoch w /\
  Loc (k_gvt w') (k_flags w') pd (hand ++ allprocs (k_lps w')) (allmarks (k_lps w')) (k_next w') /\
  lp_base (get_lp w' l) /\ (forall i, i <> l -> get_lp w' i = get_lp w i) /\
  (get_lp w' l = get_lp w l \/
   exists r, x_hist (get_lp w' l) = skipn r (x_hist (get_lp w l)) /\ fst (base (get_lp w l)) <= r /\ fst (base (get_lp w' l)) = 0).
Proof.
  intros Hok Htime Hl Hbase HL Hge. unfold fossil_lp.
  set (x := get_lp w l) in *.
  assert (Hx2 : lp_ok2 p x) by (apply get_ok2; assumption).
  destruct (newest_below (k_gvt w) (rev (x_hist x)) (length (x_hist x))) as [past|] eqn:En.
  2:{ cbn zeta. do 7 (split; [reflexivity|]). split; [exact HL|]. split; [exact Hbase|]. split; [intros i _; reflexivity|].
      left. reflexivity. }
  destruct (newest_below_spec ck (k_gvt w) (rev (x_hist x)) (length (x_hist x)) past (rev_length _) En) as (m0 & Hn0 & Ht0 & Hp).
  rewrite rev_involutive in Hn0.
  pose proof (base_proc_index x past m0 (proj1 Hx2) Hbase Hn0) as Hr0.
  pose proof (drop_newer_some x (past + 1) (proj1 Hx2) ltac:(lia)) as Hne.
  destruct (drop_newer (x_logs x) (past + 1)) as [|[ref snap] older] eqn:Hd; [congruence|].
  destruct (proj1 Hx2) as (newer & r0 & s0 & El & Hs & Hsn & Hst).
  assert (Hxt : lp_time x) by (rewrite Forall_forall in Htime; apply Htime; unfold x, get_lp; apply nth_In; exact Hl).
  pose proof (fossil_releases_below p ck H_time x (k_gvt w) past ref snap older (proj1 Hxt) En Hs Hd) as Hrel.
  pose proof (drop_newer_spec (x_logs x) (past + 1) Hs) as Hspec. rewrite Hd in Hspec. destruct Hspec as (pre0 & E0 & Hle0 & _). cbn [fst] in Hle0.
  assert (Hrefge : fst (base x) <= ref).
  { rewrite (base_eq x newer r0 s0 El). cbn [fst]. apply (base_least newer r0 s0 ref snap); [rewrite <- El; exact Hs|].
    rewrite <- El, E0. apply in_or_app. right. left. reflexivity. }
  cbn zeta. cbn [put_lp set_lps k_err k_gvt k_flags k_next k_lps k_epoch].
  split; [reflexivity|]. split; [reflexivity|]. split; [reflexivity|]. split; [reflexivity|]. split; [reflexivity|].
  split; [apply set_nth_length|]. split; [reflexivity|].
  assert (Ehist : x_hist x = firstn ref (x_hist x) ++ skipn ref (x_hist x)) by (symmetry; apply firstn_skipn).
  split; [|split; [|split]].
  - (* location predicate *)
    assert (HL1 : Loc (k_gvt w) (k_flags w) pd
                    (procs_of (firstn ref (x_hist x)) ++ (hand ++ procs_of (skipn ref (x_hist x)) ++ rest (fun y => procs_of (x_hist y)) (k_lps w) l))
                    (marks_of (firstn ref (x_hist x)) ++ (marks_of (skipn ref (x_hist x)) ++ rest (fun y => marks_of (x_hist y)) (k_lps w) l)) (k_next w)).
    { eapply Loc_perm; [exact HL|apply Permutation_refl| |].
      - unfold allprocs. eapply perm_trans; [apply Permutation_app_head; apply (split_lp (fun y => procs_of (x_hist y)) (k_lps w) l Hl)|].
        fold (get_lp w l). fold x. rewrite Ehist at 1. rewrite procs_app. apply perm_pull1.
      - unfold allmarks. eapply perm_trans; [apply (split_lp (fun y => marks_of (x_hist y)) (k_lps w) l Hl)|].
        fold (get_lp w l). fold x. rewrite Ehist at 1. rewrite marks_app. rewrite <- !app_assoc. apply Permutation_refl. }
    apply Loc_release_all in HL1; [|intros m Hm; apply Hrel; apply in_procs; exact Hm|exact Hge].
    apply Loc_drop_marks in HL1.
    eapply Loc_perm; [exact HL1|apply Permutation_refl| |].
    + apply Permutation_app_head. unfold allprocs. apply Permutation_sym.
      match goal with |- Permutation (flat_map _ (set_nth _ _ ?X)) _ => exact (split_lp_set (fun y => procs_of (x_hist y)) (k_lps w) l X Hl) end.
    + unfold allmarks. apply Permutation_sym.
      match goal with |- Permutation (flat_map _ (set_nth _ _ ?X)) _ => exact (split_lp_set (fun y => marks_of (x_hist y)) (k_lps w) l X Hl) end.
  - (* the new base is index 0 *)
    left. unfold get_lp. cbn [k_lps set_lps put_lp]. rewrite nth_set_nth by exact Hl. unfold base. cbn [x_logs].
    destruct (fossil_kept x (past + 1) ref snap older Hs Hd) as (pre & Ek). rewrite Hd in Ek. cbn [length] in Ek.
    cbn [length]. rewrite Ek, map_app. cbn [map]. rewrite last_last. cbn [fst]. lia.
  - intros i Hi. unfold get_lp. cbn [k_lps set_lps put_lp]. apply (nth_set_nth_other ck). exact Hi.
  - right. exists ref. split; [|split; [exact Hrefge|]].
    + unfold get_lp. cbn [k_lps set_lps put_lp]. rewrite nth_set_nth by exact Hl. reflexivity.
    + unfold get_lp. cbn [k_lps set_lps put_lp]. rewrite nth_set_nth by exact Hl. unfold base. cbn [x_logs].
      destruct (fossil_kept x (past + 1) ref snap older Hs Hd) as (pre & Ek). rewrite Hd in Ek. cbn [length] in Ek.
      cbn [length]. rewrite Ek, map_app. cbn [map]. rewrite last_last. cbn [fst]. lia.
Qed.

(* ---------- the queue: transfers and extraction only permute the pending messages ---------- *)
Lemma transfer_perm w : Permutation (pend (wq_transfer w)) (pend w).
Proof.
  unfold pend, wq_transfer. cbn [k_shared k_heap k_held set_queue app].
  rewrite app_assoc. apply Permutation_app_tail. apply fold_insert_perm.
Qed.
Lemma extract_perm w : match wq_extract w with
                       | (Some m, w1) => Permutation (pend w) (m :: pend w1)
                       | (None, w1) => Permutation (pend w) (pend w1)
                       end.
Proof.
  unfold wq_extract.
  destruct (heap_extract wmsg wm_dummy (wbefore (k_flags (wq_transfer w))) (k_heap (wq_transfer w))) as [[m h']|] eqn:E.
  - pose proof (heap_extract_perm wmsg wm_dummy _ _ _ _ E) as Hp.
    eapply perm_trans; [apply Permutation_sym; apply transfer_perm|].
    unfold pend. cbn [k_shared k_heap k_held set_queue wq_transfer app].
    change (m :: h' ++ heldl (k_held w)) with ((m :: h') ++ heldl (k_held w)). apply Permutation_app_tail. apply Permutation_sym. exact Hp.
  - apply Permutation_sym. apply transfer_perm.
Qed.

(* replacing an LP by one with the same history changes neither list *)
Lemma flat_map_set_same {B} (g : lpx -> list B) lps : forall l x, l < length lps -> g x = g (nth l lps lpx_dummy) ->
  flat_map g (set_nth lps l x) = flat_map g lps.
Proof.
  induction lps as [|y r IH]; intros l x Hl E; cbn in Hl; [lia|]. destruct l as [|l]; cbn [set_nth flat_map nth] in *.
  - rewrite E. reflexivity.
  - rewrite (IH l x ltac:(lia) E). reflexivity.
Qed.

(* ---------- types, destinations, and the base of every LP ---------- *)
Definition tyok (m : wmsg) : Prop := (e_type (wm_ev m) < LP_INIT_TYPE)%N.
Definition lp_extra (n l : nat) (x : lpx) : Prop :=
  lp_base x /\
  (forall m, In (EProc m) (skipn (fst (base x)) (x_hist x)) -> tyok m) /\
  (forall m, In (EProc m) (x_hist x) -> N.to_nat (e_dest (wm_ev m)) = l) /\
  (forall m, In (ESent m) (x_hist x) -> tyok m /\ N.to_nat (e_dest (wm_ev m)) < n).
Definition extra (w : worker) : Prop :=
  (forall m, In m (pend w) -> tyok m /\ N.to_nat (e_dest (wm_ev m)) < length (k_lps w)) /\
  (forall l, l < length (k_lps w) -> lp_extra (length (k_lps w)) l (get_lp w l)).

Lemma in_skipn {A} (l : list A) n x : In x (skipn n l) -> In x l.
Proof. intros H. rewrite <- (firstn_skipn n l). apply in_or_app. right. exact H. Qed.
Lemma in_firstn {A} (l : list A) n x : In x (firstn n l) -> In x l.
Proof. intros H. rewrite <- (firstn_skipn n l). apply in_or_app. left. exact H. Qed.

Lemma last_suffix {A} (pre suf : list A) d : suf <> [] -> last (pre ++ suf) d = last suf d.
Proof.
  intros Hne. induction pre as [|a pre IH]; [reflexivity|]. cbn [app].
  assert (Hne2 : pre ++ suf <> []) by (destruct pre; [exact Hne|discriminate]).
  destruct (pre ++ suf) as [|b t]; [congruence|]. exact IH.
Qed.

Lemma rollback_lp_extra n l x past ref snap older b st :
  lp_ok p x -> lp_extra n l x -> fst (base x) <= past -> drop_newer (x_logs x) past = (ref, snap) :: older ->
  lp_extra n l (mkLpx (firstn past (x_hist x)) b st ((ref, snap) :: older) (x_rem x) (x_epoch x)).
Proof.
  intros Hok (Hb & Ht & Hd & Hm) Hr0 Hdn.
  destruct Hok as (newer & r0 & s0 & El & Hs & Hsn & Hst).
  pose proof (drop_newer_spec (x_logs x) past Hs) as Hspec. rewrite Hdn in Hspec. destruct Hspec as (pre & E & _ & _).
  assert (Eb : base (mkLpx (firstn past (x_hist x)) b st ((ref, snap) :: older) (x_rem x) (x_epoch x)) = base x).
  { unfold base. cbn [x_logs]. rewrite E. symmetry. apply last_suffix. discriminate. }
  unfold lp_extra, lp_base. rewrite !Eb. cbn [x_hist]. split; [|split; [|split]].
  - destruct Hb as [H0|(marks & im & Ef & Hrest)]; [left; exact H0|right].
    exists marks, im. split; [|exact Hrest]. rewrite firstn_firstn. replace (Nat.min (fst (base x)) past) with (fst (base x)) by lia. exact Ef.
  - intros m Hin. apply Ht. rewrite skipn_firstn_comm in Hin. apply in_firstn in Hin. exact Hin.
  - intros m Hin. apply Hd. apply in_firstn in Hin. exact Hin.
  - intros m Hin. apply Hm. apply in_firstn in Hin. exact Hin.
Qed.

Hypothesis H_type : forall ev st e, In e (snd (handle p ev st)) -> (e_type e < LP_INIT_TYPE)%N.
Hypothesis H_dest : forall ev st e, In e (snd (handle p ev st)) -> (e_dest ev < p_lps p)%N -> (e_dest e < p_lps p)%N.

(* nothing that can arrive is ordered before an LP's LP_INIT message *)
Lemma not_before_init f s im : fl f s = 2%N -> tyok s ->
  e_type (wm_ev im) = LP_INIT_TYPE -> e_t (wm_ev im) = 0%N -> e_pl (wm_ev im) = [] -> wbefore f s im = false.
Proof.
  intros Hf Hty Ety Et Epl. unfold wbefore, before, rt_msg. cbn [m_t].
  rewrite Et. cbn [Z.of_N].
  destruct (Z.ltb_spec (Z.of_N (e_t (wm_ev s))) 0) as [H|_]; [lia|]. cbn [orb].
  destruct (Z.eqb (Z.of_N (e_t (wm_ev s))) 0); [|reflexivity]. cbn [andb].
  unfold before_ext, anti_bit. cbn [m_flags m_type m_plsize m_pl payload].
  unfold fl in Hf. rewrite Hf. cbn [Z.of_N Z.land Pos.land].
  change (Z.land 2 1) with 0%Z.
  set (ai := Z.land (Z.of_N (flag_of f (wm_id im))) 1).
  assert (Hai : (0 <= ai)%Z) by (unfold ai; apply Z.land_nonneg; right; lia).
  destruct (Z.eqb_spec 0 ai) as [_|_]; cbn [negb]; [|apply Z.ltb_ge; exact Hai].
  rewrite Ety, Epl. unfold tyok in Hty. cbn [length Z.of_nat].
  destruct (Z.eqb_spec (Z.of_N (e_type (wm_ev s))) (Z.of_N LP_INIT_TYPE)) as [E|_]; cbn [negb]; [lia|].
  apply Z.ltb_ge. lia.
Qed.

Lemma nth_error_base_init x marks im : lp_ok p x -> firstn (fst (base x)) (x_hist x) = marks ++ [EProc im] ->
  fst (base x) = S (length marks) /\ nth_error (x_hist x) (length marks) = Some (EProc im).
Proof.
  intros Hok Ef. pose proof (base_le_len x Hok) as Hle.
  assert (Hlen : fst (base x) = S (length marks)).
  { rewrite <- (firstn_length_le (x_hist x) Hle). rewrite Ef, app_length. cbn. lia. }
  split; [exact Hlen|].
  rewrite <- (nth_error_firstn_lt (x_hist x) (fst (base x)) (length marks)) by lia.
  rewrite Ef, nth_error_app2, Nat.sub_diag by lia. reflexivity.
Qed.

Lemma straggler_ge_base f s x lastm : lp_ok p x -> lp_base x -> fl f s = 2%N -> tyok s ->
  last_proc (x_hist x) = Some lastm -> wbefore f s lastm = true ->
  fst (base x) <= straggler_index f s (x_hist x).
Proof.
  intros Hok Hb Hf Hty El Ew.
  destruct Hb as [H0|(marks & im & Ef & _ & Ety & Et & Epl)]; [lia|].
  destruct (nth_error_base_init x marks im Hok Ef) as [Hlen Hn].
  destruct (straggler_index_spec f s (x_hist x) lastm El Ew) as [Habove _]. cbn zeta in Habove.
  destruct (Nat.le_gt_cases (fst (base x)) (straggler_index f s (x_hist x))) as [H|H]; [exact H|exfalso].
  assert (Hin : In (EProc im) (skipn (straggler_index f s (x_hist x)) (x_hist x))).
  { apply (nth_error_In _ (length marks - straggler_index f s (x_hist x))). rewrite nth_error_skipn_add.
    replace (straggler_index f s (x_hist x) + (length marks - straggler_index f s (x_hist x))) with (length marks) by lia. exact Hn. }
  specialize (Habove im Hin). rewrite (not_before_init f s im Hf Hty Ety Et Epl) in Habove. discriminate.
Qed.

Lemma anti_ge_base a x k : lp_ok p x -> lp_base x -> tyok a -> anti_index a (x_hist x) = Some k -> fst (base x) <= k.
Proof.
  intros Hok Hb Hty Ea.
  destruct (anti_index_spec ck a _ _ Ea) as (j & Hkj & Hnj & Hsent).
  pose proof (base_proc_index x j a Hok Hb Hnj) as Hj.
  destruct Hb as [H0|(marks & im & Ef & _ & Ety & _)]; [lia|].
  destruct (nth_error_base_init x marks im Hok Ef) as [Hlen Hn].
  destruct (Nat.eq_dec j (length marks)) as [->|Hne].
  - rewrite Hn in Hnj. injection Hnj as <-. unfold tyok in Hty. rewrite Ety in Hty. exfalso. exact (N.lt_irrefl _ Hty).
  - destruct (Nat.le_gt_cases (fst (base x)) k) as [H|H]; [exact H|exfalso].
    destruct (Hsent (length marks) ltac:(lia)) as (m' & Hm'). rewrite Hn in Hm'. discriminate.
Qed.

Lemma find_proc_total a rh : forall i, length rh = i -> In (EProc a) rh -> find_proc a rh i <> None.
Proof.
  induction rh as [|e r IH]; intros i Hl Hin; [destruct Hin|]. cbn in Hl. subst i. cbn [find_proc].
  destruct e as [m|m].
  - apply (IH (length r) eq_refl). destruct Hin as [H|H]; [discriminate|exact H].
  - destruct (wmsg_eqb m a) eqn:E; [discriminate|]. apply (IH (length r) eq_refl). destruct Hin as [H|H]; [|exact H].
    injection H as ->. unfold wmsg_eqb in E. rewrite Pos.eqb_refl in E. destruct (event_eq_dec (wm_ev a) (wm_ev a)); [discriminate|congruence].
Qed.
Lemma anti_index_total a hist : In (EProc a) hist -> anti_index a hist <> None.
Proof.
  intros Hin. unfold anti_index. pose proof (find_proc_total a (rev hist) (length hist) (rev_length _) ltac:(apply -> in_rev; exact Hin)) as H.
  destruct (find_proc a (rev hist) (length hist)) as [[j below]|]; [discriminate|congruence].
Qed.

Lemma do_rollback_shape w l past ref snap older :
  drop_newer (x_logs (get_lp w l)) past = (ref, snap) :: older ->
  k_lps (do_rollback p w l past) =
  set_nth (k_lps w) l (mkLpx (firstn past (x_hist (get_lp w l))) (x_bound (get_lp w l))
                             (replay p snap (sub (firstn past (x_hist (get_lp w l))) ref past)) ((ref, snap) :: older)
                             (x_rem (get_lp w l)) (x_epoch (get_lp w l))).
Proof. intros Hd. unfold do_rollback. rewrite Hd. cbn [put_lp set_lps k_lps]. rewrite undo_all_lps. reflexivity. Qed.

Lemma do_rollback_extra w l past :
  all_ok2 p w -> l < length (k_lps w) -> extra w -> fst (base (get_lp w l)) <= past ->
  extra (do_rollback p w l past) /\ length (k_lps (do_rollback p w l past)) = length (k_lps w).
Proof.
  intros Hok Hl [Hp Hx] Hr0.
  destruct (get_ok2 p w l Hok Hl) as [Hlok _].
  pose proof (drop_newer_some (get_lp w l) past Hlok Hr0) as Hne.
  destruct (drop_newer (x_logs (get_lp w l)) past) as [|[ref snap] older] eqn:Hd; [congruence|].
  pose proof (do_rollback_shape w l past ref snap older Hd) as Es.
  assert (Elen : length (k_lps (do_rollback p w l past)) = length (k_lps w)) by (rewrite Es; apply set_nth_length).
  split; [|exact Elen]. split.
  - intros m Hm. rewrite Elen.
    assert (Hin : In m (pend w) \/ In m (map entry_msg (skipn past (x_hist (get_lp w l))))).
    { unfold do_rollback in Hm. rewrite Hd in Hm. change (pend (put_lp ?a _ _)) with (pend a) in Hm.
      destruct (undo_all_frame (skipn past (x_hist (get_lp w l))) w) as (_ & _ & _ & _ & _ & B6). apply B6. exact Hm. }
    destruct Hin as [Hin|Hin]; [apply Hp; exact Hin|].
    apply in_map_iff in Hin. destruct Hin as (e & <- & He).
    destruct (Hx l Hl) as (Hb & Ht & Hdst & Hmk).
    destruct e as [y|y]; cbn [entry_msg].
    + apply Hmk. apply (in_skipn _ _ _ He).
    + split; [apply Ht|rewrite (Hdst y (in_skipn _ _ _ He)); exact Hl].
      rewrite <- (firstn_skipn (past - fst (base (get_lp w l))) (skipn (fst (base (get_lp w l))) (x_hist (get_lp w l)))).
      apply in_or_app. right. rewrite skipn_skipn. replace (past - fst (base (get_lp w l)) + fst (base (get_lp w l))) with past by lia. exact He.
  - intros i Hi. rewrite Elen in *. unfold get_lp at 1. rewrite Es.
    destruct (Nat.eq_dec i l) as [->|Hne'].
    + rewrite nth_set_nth by exact Hl. apply rollback_lp_extra; [exact Hlok|apply Hx; exact Hl|exact Hr0|exact Hd].
    + rewrite (nth_set_nth_other ck) by exact Hne'. apply Hx. exact Hi.
Qed.

Lemma forward_shape w l m : exists news,
  map wm_ev news = snd (handle p (wm_ev m) (x_st (get_lp w l))) /\
  (forall y, In y (pend (forward p ck w l m)) <-> In y news \/ In y (pend w)) /\
  exists b st logs rem,
    (logs = x_logs (get_lp w l) \/ exists g, logs = g :: x_logs (get_lp w l)) /\
    k_lps (forward p ck w l m) =
    set_nth (k_lps w) l (mkLpx (x_hist (get_lp w l) ++ map ESent news ++ [EProc m]) b st logs rem (x_epoch (get_lp w l))).
Proof.
  unfold forward. destruct (handle p (wm_ev m) (x_st (get_lp w l))) as [st' outs].
  pose proof (send_all_lps outs w []) as Elps.
  assert (Hs : exists news, snd (send_all w outs []) = map ESent news /\ map wm_ev news = outs /\
                            forall y, In y (pend (fst (send_all w outs []))) <-> In y news \/ In y (pend w)).
  { clear Elps. change (@nil entry) with (rev (@nil entry)) at 2.
    assert (G : forall outs w acc, exists news, snd (send_all w outs acc) = rev acc ++ map ESent news /\ map wm_ev news = outs /\
                  forall y, In y (pend (fst (send_all w outs acc))) <-> In y news \/ In y (pend w)).
    { clear. induction outs as [|e r IH]; intros w acc; cbn [send_all].
      - exists []. cbn [fst snd map]. rewrite app_nil_r. split; [reflexivity|]. split; [reflexivity|]. intros y. cbn [In]. tauto.
      - match goal with |- context [send_all ?w0 r ?a] => destruct (IH w0 a) as (news & E1 & E2 & E3) end.
        exists (mkWm (k_next w) e :: news). split; [rewrite E1; cbn [rev map]; rewrite <- app_assoc; reflexivity|].
        split; [cbn [map wm_ev]; rewrite E2; reflexivity|]. intros y. rewrite E3.
        match goal with |- In y news \/ In y (pend ?w0) <-> _ => change (pend w0) with (mkWm (k_next w) e :: pend w) end.
        cbn [In]. tauto. }
    destruct (G outs w []) as (news & E1 & E2 & E3). exists news. split; [exact E1|]. split; [exact E2|exact E3]. }
  destruct Hs as (news & E1 & E2 & E3).
  destruct (send_all w outs []) as [w1 marks]. cbn [fst snd] in *. subst marks.
  exists news. split; [exact E2|]. split; [intros y; change (pend (put_lp w1 _ _)) with (pend w1); apply E3|].
  eexists _, _, _, _. split; [|cbn [put_lp set_lps k_lps]; rewrite Elps; reflexivity].
  destruct (Nat.leb ck (S (x_rem (get_lp w l)))); [right; eexists; reflexivity|left; reflexivity].
Qed.

Lemma last_cons_ne {A} (g : A) l d : l <> [] -> last (g :: l) d = last l d.
Proof. intros H. destruct l; [congruence|reflexivity]. Qed.

Lemma forward_extra w l m : all_ok2 p w -> l < length (k_lps w) -> length (k_lps w) = N.to_nat (p_lps p) ->
  extra w -> tyok m -> N.to_nat (e_dest (wm_ev m)) = l ->
  extra (forward p ck w l m) /\ length (k_lps (forward p ck w l m)) = length (k_lps w).
Proof.
  intros Hok Hl Hn [Hp Hx] Hty Hdm.
  destruct (forward_shape w l m) as (news & E2 & E3 & b & st & logs & rem & Hlogs & Es).
  assert (Elen : length (k_lps (forward p ck w l m)) = length (k_lps w)) by (rewrite Es; apply set_nth_length).
  assert (Hnews : forall y, In y news -> tyok y /\ N.to_nat (e_dest (wm_ev y)) < length (k_lps w)).
  { intros y Hy. assert (Ho : In (wm_ev y) (snd (handle p (wm_ev m) (x_st (get_lp w l))))) by (rewrite <- E2; apply in_map; exact Hy).
    split; [exact (H_type _ _ _ Ho)|]. pose proof (H_dest _ _ _ Ho ltac:(lia)). lia. }
  split; [|exact Elen]. split.
  - intros y Hy. rewrite Elen. apply E3 in Hy. destruct Hy as [Hy|Hy]; [apply Hnews; exact Hy|apply Hp; exact Hy].
  - intros i Hi. rewrite Elen in *. unfold get_lp at 1. rewrite Es.
    destruct (Nat.eq_dec i l) as [->|Hne'].
    2:{ rewrite (nth_set_nth_other ck) by exact Hne'. apply Hx. exact Hi. }
    rewrite nth_set_nth by exact Hl.
    destruct (Hx l Hl) as (Hb & Ht & Hdst & Hmk). set (x := get_lp w l) in *.
    destruct (get_ok2 p w l Hok Hl) as [Hlok _]. fold x in Hlok.
    pose proof (base_le_len x Hlok) as Hble.
    destruct Hlok as (newer & r0 & s0 & El & _).
    assert (Eb : base (mkLpx (x_hist x ++ map ESent news ++ [EProc m]) b st logs rem (x_epoch x)) = base x).
    { unfold base. cbn [x_logs]. destruct Hlogs as [->|[g ->]]; [reflexivity|]. apply last_cons_ne. rewrite El. destruct newer; discriminate. }
    unfold lp_extra, lp_base. rewrite !Eb. cbn [x_hist]. split; [|split; [|split]].
    + destruct Hb as [H0|(marks & im & Ef & Hrest)]; [left; exact H0|right]. exists marks, im. split; [|exact Hrest].
      rewrite firstn_app. replace (fst (base x) - length (x_hist x)) with 0 by lia. rewrite firstn_O, app_nil_r. exact Ef.
    + intros y Hy. rewrite skipn_app_le in Hy by exact Hble. apply in_app_or in Hy. destruct Hy as [Hy|Hy]; [apply Ht; exact Hy|].
      apply in_app_or in Hy. destruct Hy as [Hy|[Hy|[]]]; [apply in_map_iff in Hy; destruct Hy as (z & Hz & _); discriminate|].
      injection Hy as <-. exact Hty.
    + intros y Hy. apply in_app_or in Hy. destruct Hy as [Hy|Hy]; [apply Hdst; exact Hy|].
      apply in_app_or in Hy. destruct Hy as [Hy|[Hy|[]]]; [apply in_map_iff in Hy; destruct Hy as (z & Hz & _); discriminate|].
      injection Hy as <-. exact Hdm.
    + intros y Hy. apply in_app_or in Hy. destruct Hy as [Hy|Hy]; [apply Hmk; exact Hy|].
      apply in_app_or in Hy. destruct Hy as [Hy|[Hy|[]]]; [|discriminate].
      apply in_map_iff in Hy. destruct Hy as (z & Hz & Hin). injection Hz as <-. apply Hnews. exact Hin.
Qed.

Lemma fix_bound_hist x : x_hist (fix_bound x) = x_hist x.
Proof. unfold fix_bound. destruct (x_hist x) eqn:E; [cbn; reflexivity|exact E]. Qed.
Lemma fix_bound_logs x : x_logs (fix_bound x) = x_logs x.
Proof. unfold fix_bound. destruct (x_hist x); reflexivity. Qed.
Lemma fix_bound_extra n l x : lp_extra n l x -> lp_extra n l (fix_bound x).
Proof. unfold lp_extra, lp_base, base. rewrite fix_bound_hist, fix_bound_logs. tauto. Qed.

Lemma extract_frame w : let w1 := snd (wq_extract w) in
  k_flags w1 = k_flags w /\ k_next w1 = k_next w /\ k_gvt w1 = k_gvt w /\ k_lps w1 = k_lps w /\ k_err w1 = k_err w /\ k_epoch w1 = k_epoch w.
Proof. unfold wq_extract. destruct (heap_extract _ _ _ _) as [[m h']|]; cbn; repeat split; reflexivity. Qed.

Lemma put_same_hist w l x : l < length (k_lps w) -> x_hist x = x_hist (get_lp w l) ->
  allprocs (k_lps (put_lp w l x)) = allprocs (k_lps w) /\ allmarks (k_lps (put_lp w l x)) = allmarks (k_lps w).
Proof.
  intros Hl E. cbn [put_lp set_lps k_lps]. unfold allprocs, allmarks. split; apply flat_map_set_same; try exact Hl; unfold get_lp in E; rewrite E; reflexivity.
Qed.

Lemma lazy_fossil w1 l m :
  all_ok2 p w1 -> good w1 -> k_err w1 = false -> l < length (k_lps w1) ->
  Loc (k_gvt w1) (k_flags w1) (m :: pend w1) (allprocs (k_lps w1)) (allmarks (k_lps w1)) (k_next w1) ->
  ge (k_gvt w1) m ->
  (forall i, i < length (k_lps w1) -> lp_extra (length (k_lps w1)) i (get_lp w1 i)) ->
  let w2 := if Nat.eqb (x_epoch (get_lp w1 l)) (k_epoch w1) then w1 else let w' := fossil_lp w1 l in put_lp w' l (fix_bound (get_lp w' l)) in
  all_ok2 p w2 /\ good w2 /\ k_err w2 = false /\ length (k_lps w2) = length (k_lps w1) /\ pend w2 = pend w1 /\ k_gvt w2 = k_gvt w1 /\
  Loc (k_gvt w2) (k_flags w2) (m :: pend w2) (allprocs (k_lps w2)) (allmarks (k_lps w2)) (k_next w2) /\
  (forall i, i < length (k_lps w2) -> lp_extra (length (k_lps w2)) i (get_lp w2 i)).
Proof.
  intros Hok Hg He Hl HL Hgm Hx. cbn zeta.
  destruct (Nat.eqb (x_epoch (get_lp w1 l)) (k_epoch w1)).
  { split; [exact Hok|split; [exact Hg|split; [exact He|split; [reflexivity|split; [reflexivity|split; [reflexivity|split; [exact HL|exact Hx]]]]]]]. }
  destruct Hg as [S2 S3 S4].
  destruct (fossil_once w1 l (m :: pend w1) [] Hok S4 Hl (proj1 (Hx l Hl)) HL) as (F1 & F2 & F3 & F4 & F5 & F6 & F7 & F8 & F9 & F10 & F11).
  { intros y [<-|Hy]; [exact Hgm|apply S2; exact Hy]. }
  set (w' := fossil_lp w1 l) in *.
  assert (Hl' : l < length (k_lps w')) by (rewrite F6; exact Hl).
  assert (Ok' : all_ok2 p w') by (apply fossil_ok2; exact Hok).
  assert (G' : good w').
  { destruct (fossil_good w1 l (Build_good _ S2 S3 S4)) as [[Gf _]|Et]; [exact Gf|]. fold w' in Et. rewrite F1, He in Et. discriminate. }
  destruct (put_same_hist w' l (fix_bound (get_lp w' l)) Hl' (fix_bound_hist _)) as [Ep Em].
  split; [apply put_ok2; [exact Ok'|intros _; apply fix_bound_ok2; apply get_ok2; assumption]|].
  split; [apply put_lp_good; [exact G'|intros _; apply fix_bound_time; apply get_time; assumption]|].
  split; [cbn [put_lp set_lps k_err]; rewrite F1; exact He|].
  split; [cbn [put_lp set_lps k_lps]; rewrite set_nth_length; exact F6|].
  split; [change (pend (put_lp w' _ _)) with (pend w'); exact F5|].
  split; [exact F2|].
  split.
  - rewrite Ep, Em. change (pend (put_lp w' _ _)) with (pend w'). cbn [put_lp set_lps k_gvt k_flags k_next]. rewrite F5. exact F8.
  - cbn [put_lp set_lps k_lps]. rewrite set_nth_length, F6. intros i Hi. unfold get_lp at 1. cbn [put_lp set_lps k_lps].
    destruct (Nat.eq_dec i l) as [->|Hne].
    + rewrite nth_set_nth by exact Hl'. apply fix_bound_extra.
      destruct (Hx l Hl) as (Hb & Ht & Hdst & Hmk).
      destruct F11 as [E|(r & Eh & Hr & Hb0)]; [rewrite E; apply Hx; exact Hl|].
      unfold lp_extra. rewrite Hb0. cbn [skipn]. rewrite Eh. split; [exact F9|]. split; [|split].
      * intros y Hy. apply Ht. rewrite <- (firstn_skipn (r - fst (base (get_lp w1 l))) (skipn (fst (base (get_lp w1 l))) (x_hist (get_lp w1 l)))).
        apply in_or_app. right. rewrite skipn_skipn. replace (r - fst (base (get_lp w1 l)) + fst (base (get_lp w1 l))) with r by lia. exact Hy.
      * intros y Hy. apply Hdst. apply (in_skipn _ _ _ Hy).
      * intros y Hy. apply Hmk. apply (in_skipn _ _ _ Hy).
    + rewrite (nth_set_nth_other ck) by exact Hne. fold (get_lp w' i). rewrite (F10 i Hne). apply Hx. exact Hi.
Qed.

Lemma in_allprocs lps m : In m (allprocs lps) -> exists l, l < length lps /\ In (EProc m) (x_hist (nth l lps lpx_dummy)).
Proof.
  unfold allprocs. rewrite in_flat_map. intros (x & Hx & Hm). destruct (In_nth _ _ lpx_dummy Hx) as (l & Hl & E).
  exists l. split; [exact Hl|]. rewrite E. apply in_procs. exact Hm.
Qed.

Record full (w : worker) : Prop := {
  f_ok : all_ok2 p w; f_good : good w; f_err : k_err w = false; f_once : once w [];
  f_extra : extra w; f_gvt : (k_gvt w <= k_lastgvt w)%Z }.

Lemma process_msg_core w : full w -> length (k_lps w) = N.to_nat (p_lps p) ->
  k_err (process_msg p ck w) = false /\ once (process_msg p ck w) [] /\
  length (k_lps (process_msg p ck w)) = length (k_lps w) /\ extra (process_msg p ck w).
Proof.
  intros [Hok Hg He HL [Hxp Hxl] _] Hn. unfold process_msg.
  pose proof (extract_spec w Hg) as Hex. pose proof (extract_perm w) as Hperm. pose proof (extract_frame w) as Hfr.
  destruct (wq_extract w) as [[m|] w1]; cbn [snd] in Hfr; cbn zeta in Hfr; destruct Hfr as (Ef & Enx & Eg & Elps & Eerr & Eep).
  2:{ split; [rewrite Eerr; exact He|]. split; [|split; [rewrite Elps; reflexivity|]].
      - unfold once. rewrite Eg, Ef, Elps, Enx. eapply Loc_perm; [exact HL|exact Hperm|apply Permutation_refl|apply Permutation_refl].
      - split; [intros y Hy; rewrite Elps; apply Hxp; apply (Permutation_in _ (Permutation_sym Hperm) Hy)|].
        rewrite Elps. intros i Hi. unfold get_lp. rewrite Elps. apply Hxl. exact Hi. }
  destruct Hex as (G1 & Hgm & _).
  assert (Hmin : In m (pend w)) by (apply (Permutation_in _ (Permutation_sym Hperm)); left; reflexivity).
  destruct (Hxp m Hmin) as [Hty Hdl]. set (l := N.to_nat (e_dest (wm_ev m))) in *.
  assert (Ok1 : all_ok2 p w1) by (unfold all_ok2; rewrite Elps; exact Hok).
  assert (Hl1 : l < length (k_lps w1)) by (rewrite Elps; exact Hdl).
  assert (HL1 : Loc (k_gvt w1) (k_flags w1) (m :: pend w1) (allprocs (k_lps w1)) (allmarks (k_lps w1)) (k_next w1)).
  { rewrite Eg, Ef, Elps, Enx. eapply Loc_perm; [exact HL|exact Hperm|apply Permutation_refl|apply Permutation_refl]. }
  assert (Hx1 : forall i, i < length (k_lps w1) -> lp_extra (length (k_lps w1)) i (get_lp w1 i)) by (unfold get_lp; rewrite Elps; exact Hxl).
  assert (He1 : k_err w1 = false) by (rewrite Eerr; exact He).
  assert (Hgm1 : ge (k_gvt w1) m) by (unfold ge; rewrite Eg; exact Hgm).
  destruct (lazy_fossil w1 l m Ok1 G1 He1 Hl1 HL1 Hgm1 Hx1) as (Ok2 & G2 & He2 & Elen2 & Ep2 & Eg2 & HL2 & Hx2).
  set (w2 := if Nat.eqb (x_epoch (get_lp w1 l)) (k_epoch w1) then w1 else let w' := fossil_lp w1 l in put_lp w' l (fix_bound (get_lp w' l))) in *.
  assert (Hl2 : l < length (k_lps w2)) by (rewrite Elen2; exact Hl1).
  assert (Hlen2 : length (k_lps w2) = length (k_lps w)) by (rewrite Elen2, Elps; reflexivity).
  assert (Hp2 : forall y, In y (pend w2) -> tyok y /\ N.to_nat (e_dest (wm_ev y)) < length (k_lps w2)).
  { intros y Hy. rewrite Hlen2. apply Hxp. apply (Permutation_in _ (Permutation_sym Hperm)). right. rewrite <- Ep2. exact Hy. }
  unfold flag_add. fold (fl (k_flags w2) m).
  destruct (l_pd _ _ _ _ _ _ HL2 m (or_introl eq_refl)) as [[Hf Hin]|[[Hf|Hf] Hnin]]; rewrite Hf.
  - (* flag 3: the cancellation notice of a message this LP has processed *)
    change (has 3 FLAG_ANTI) with true. change (N.eqb 3 (FLAG_ANTI + FLAG_PROC)) with true. change (m32 (3 + FLAG_PROC)) with 5%N. cbn iota.
    set (w3 := set_flags w2 (flag_set (k_flags w2) (wm_id m) 5)).
    destruct (Loc_extract3 _ _ _ _ _ _ _ HL2 Hf) as [_ HL3].
    assert (Hmh : In (EProc m) (x_hist (get_lp w3 l))).
    { destruct (in_allprocs _ _ Hin) as (l' & Hl' & Hm'). fold (get_lp w2 l') in Hm'.
      destruct (Hx2 l' Hl') as (_ & _ & Hd' & _). assert (El' : l' = l) by (symmetry; exact (Hd' m Hm')). subst l'. exact Hm'. }
    pose proof (anti_index_total m _ Hmh) as Hsome.
    destruct (anti_index m (x_hist (get_lp w3 l))) as [past|] eqn:Ea; [|congruence].
    assert (Ok3 : all_ok2 p w3) by exact Ok2. assert (G3 : good w3) by (apply set_flags_good; exact G2).
    destruct (get_ok2 p w3 l Ok3 Hl2) as [Hlok Hlwf].
    pose proof (anti_ge_base m (get_lp w3 l) past Hlok (proj1 (Hx2 l Hl2)) Hty Ea) as Hbp.
    destruct (anti_index_bnd m _ _ Ea) as [Hbnd Hple].
    destruct (anti_index_spec ck m _ _ Ea) as (j & Hkj & Hnj & Hsent).
    pose proof (anti_undone_ge _ past j m (proj1 (get_time w3 l G3 Hl2)) Hkj Hnj Hsent) as Hund.
    destruct (do_rollback_once w3 l past (tm m) [] Ok3 Hl2 Hbnd Hbp Hple) as (R1 & R2 & R3 & R4 & R5); [unfold ge in Hgm1; cbn [w3 set_flags k_gvt]; rewrite Eg2; exact Hgm1|exact Hund|exact HL3|].
    destruct (do_rollback_extra w3 l past Ok3 Hl2 (conj Hp2 Hx2) Hbp) as [X1 X2].
    set (w4 := do_rollback p w3 l past) in *.
    assert (Hl4 : l < length (k_lps w4)) by (rewrite X2; exact Hl2).
    destruct (put_same_hist w4 l (fix_bound (get_lp w4 l)) Hl4 (fix_bound_hist _)) as [Epp Emm].
    split; [cbn [put_lp set_lps k_err]; rewrite R1; exact He2|]. split; [|split].
    + unfold once. rewrite Epp, Emm. exact R2.
    + cbn [put_lp set_lps k_lps]. rewrite set_nth_length, X2. exact Hlen2.
    + destruct X1 as [X1p X1l]. split; [intros y Hy; cbn [put_lp set_lps k_lps]; rewrite set_nth_length; apply X1p; exact Hy|].
      cbn [put_lp set_lps k_lps]. rewrite set_nth_length. intros i Hi. unfold get_lp at 1. cbn [put_lp set_lps k_lps].
      destruct (Nat.eq_dec i l) as [->|Hne]; [rewrite nth_set_nth by exact Hl4; apply fix_bound_extra; apply X1l; exact Hl4|].
      rewrite (nth_set_nth_other ck) by exact Hne. apply X1l. exact Hi.
  - (* flag 0: an ordinary message, possibly a straggler *)
    change (has 0 FLAG_ANTI) with false. change (m32 (0 + FLAG_PROC)) with 2%N. cbn iota.
    set (w3 := set_flags w2 (flag_set (k_flags w2) (wm_id m) 2)).
    pose proof (Loc_extract0 _ _ _ _ _ _ _ HL2 Hf) as HL3.
    assert (Ok3 : all_ok2 p w3) by exact Ok2. assert (G3 : good w3) by (apply set_flags_good; exact G2).
    set (x := get_lp w3 l).
    set (strag := match last_proc (x_hist x) with Some lastm => (Z.of_N (e_t (wm_ev m)) <=? x_bound x)%Z && wbefore (k_flags w3) m lastm | None => false end).
    set (w4 := if strag then do_rollback p w3 l (straggler_index (k_flags w3) m (x_hist x)) else w3).
    assert (H4 : all_ok2 p w4 /\ k_err w4 = false /\ once w4 [m] /\ extra w4 /\ length (k_lps w4) = length (k_lps w2)).
    { unfold w4. destruct strag eqn:Es.
      - unfold strag in Es. destruct (last_proc (x_hist x)) as [lastm|] eqn:El; [|discriminate].
        apply andb_true_iff in Es. destruct Es as [_ Ew].
        destruct (straggler_index_spec (k_flags w3) m (x_hist x) lastm El Ew) as [Habove _]. cbn zeta in Habove.
        destruct (get_ok2 p w3 l Ok3 Hl2) as [Hlok Hlwf]. fold x in Hlok, Hlwf.
        assert (Hf3 : fl (k_flags w3) m = 2%N) by (unfold w3; cbn [set_flags k_flags]; apply fl_set_same).
        pose proof (straggler_ge_base (k_flags w3) m x lastm Hlok (proj1 (Hx2 l Hl2)) Hf3 Hty El Ew) as Hbk.
        destruct (straggler_index_bnd (k_flags w3) m (x_hist x)) as [Hbnd Hkle].
        set (k := straggler_index (k_flags w3) m (x_hist x)) in *.
        destruct (do_rollback_once w3 l k (tm m) [m] Ok3 Hl2 Hbnd Hbk Hkle) as (R1 & R2 & R3 & R4 & R5);
          [unfold ge in Hgm1; cbn [w3 set_flags k_gvt]; rewrite Eg2; exact Hgm1|intros m' Hm'; apply (wbefore_le (k_flags w3)); apply Habove; exact Hm'|exact HL3|].
        destruct (do_rollback_extra w3 l k Ok3 Hl2 (conj Hp2 Hx2) Hbk) as [X1 X2].
        split; [apply do_rollback_ok2; [exact Ok3|intros _; exact Hbnd]|]. split; [rewrite R1; exact He2|]. split; [exact R2|]. split; [exact X1|exact X2].
      - split; [exact Ok3|]. split; [exact He2|]. split; [exact HL3|]. split; [exact (conj Hp2 Hx2)|reflexivity]. }
    destruct H4 as (Ok4 & He4 & HL4 & X4 & Elen4).
    assert (Hl4 : l < length (k_lps w4)) by (rewrite Elen4; exact Hl2).
    destruct (forward_once w4 l m Hl4 HL4) as [HL5 _].
    destruct (forward_extra w4 l m Ok4 Hl4 ltac:(rewrite Elen4, Hlen2; exact Hn) X4 Hty eq_refl) as [X5 Elen5].
    split; [rewrite (forward_err p ck); exact He4|]. split; [exact HL5|]. split; [rewrite Elen5, Elen4; exact Hlen2|exact X5].
  - (* flag 1: cancelled while pending: dropped *)
    change (has 1 FLAG_ANTI) with true. change (N.eqb 1 (FLAG_ANTI + FLAG_PROC)) with false. change (m32 (1 + FLAG_PROC)) with 3%N. cbn iota.
    set (w3 := set_flags w2 (flag_set (k_flags w2) (wm_id m) 3)).
    pose proof (Loc_extract1 _ _ _ _ _ _ _ HL2 Hf) as HL3.
    destruct (put_same_hist w3 l (fix_bound (get_lp w3 l)) Hl2 (fix_bound_hist _)) as [Epp Emm].
    split; [exact He2|]. split; [unfold once; rewrite Epp, Emm; exact HL3|].
    split; [cbn [put_lp set_lps k_lps]; rewrite set_nth_length; exact Hlen2|].
    split; [intros y Hy; cbn [put_lp set_lps k_lps]; rewrite set_nth_length; apply Hp2; exact Hy|].
    cbn [put_lp set_lps k_lps]. rewrite set_nth_length. intros i Hi. unfold get_lp at 1. cbn [put_lp set_lps k_lps].
    destruct (Nat.eq_dec i l) as [->|Hne]; [rewrite nth_set_nth by exact Hl2; apply fix_bound_extra; apply Hx2; exact Hl2|].
    rewrite (nth_set_nth_other ck) by exact Hne. apply Hx2. exact Hi.
Qed.

(* ---------- GVT bookkeeping is only touched by the announcement ---------- *)
Definition gv (w : worker) : Z * Z := (k_gvt w, k_lastgvt w).
Lemma do_rollback_gv w l past : gv (do_rollback p w l past) = gv w.
Proof.
  unfold do_rollback, gv. destruct (undo_all_frame (skipn past (x_hist (get_lp w l))) w) as (B1 & _ & _ & _ & B5 & _). cbn zeta in *.
  destruct (drop_newer _ _) as [|[ref snap] older]; cbn; rewrite B1, B5; reflexivity.
Qed.
Lemma fossil_gv w l : gv (fossil_lp w l) = gv w.
Proof. unfold fossil_lp, gv. destruct (newest_below _ _ _); [|reflexivity]. destruct (drop_newer _ _) as [|[ref snap] older]; reflexivity. Qed.
Lemma forward_gv w l m : gv (forward p ck w l m) = gv w.
Proof.
  unfold forward, gv. destruct (handle p (wm_ev m) (x_st (get_lp w l))) as [st' outs].
  destruct (send_all_frame outs w []) as (B1 & _ & _ & _ & B5 & _). cbn zeta in *.
  destruct (send_all w outs []) as [w1 marks]. cbn [fst] in *. cbn. rewrite B1, B5. reflexivity.
Qed.
Lemma extract_gv w : gv (snd (wq_extract w)) = gv w.
Proof. unfold wq_extract, gv. destruct (heap_extract _ _ _ _) as [[m h']|]; reflexivity. Qed.
Lemma process_msg_gv w : gv (process_msg p ck w) = gv w.
Proof.
  unfold process_msg. pose proof (extract_gv w) as E1. destruct (wq_extract w) as [[m|] w1]; cbn [snd] in E1; [|exact E1].
  set (l := N.to_nat (e_dest (wm_ev m))).
  set (w2 := if Nat.eqb (x_epoch (get_lp w1 l)) (k_epoch w1) then w1 else let w' := fossil_lp w1 l in put_lp w' l (fix_bound (get_lp w' l))).
  assert (E2 : gv w2 = gv w).
  { unfold w2. destruct (Nat.eqb _ _); [exact E1|]. cbn zeta. change (gv (put_lp ?a _ _)) with (gv a). rewrite fossil_gv. exact E1. }
  destruct (flag_add (k_flags w2) (wm_id m) FLAG_PROC) as [o f].
  destruct (has o FLAG_ANTI).
  - change (gv (put_lp ?a _ _)) with (gv a). destruct (N.eqb o (FLAG_ANTI + FLAG_PROC)); [|exact E2].
    destruct (anti_index m _); [rewrite do_rollback_gv|]; exact E2.
  - rewrite forward_gv. destruct (match last_proc _ with Some _ => _ | None => false end); [rewrite do_rollback_gv|]; exact E2.
Qed.

Lemma process_msg_full w : full w -> length (k_lps w) = N.to_nat (p_lps p) ->
  full (process_msg p ck w) /\ length (k_lps (process_msg p ck w)) = length (k_lps w).
Proof.
  intros Hf Hn. destruct (process_msg_core w Hf Hn) as (C1 & C2 & C3 & C4). destruct Hf as [Hok Hg He HL Hx Hgv].
  split; [|exact C3]. constructor; try assumption.
  - apply process_msg_ok2. exact Hok.
  - apply (process_msg_good p ck H_time); assumption.
  - pose proof (process_msg_gv w) as E. unfold gv in E. injection E as -> ->. exact Hgv.
Qed.

(* operations that only move pending messages around *)
Lemma full_perm w w' : full w -> good w' -> Permutation (pend w) (pend w') -> k_flags w' = k_flags w -> k_lps w' = k_lps w ->
  k_next w' = k_next w -> gv w' = gv w -> k_err w' = k_err w -> full w'.
Proof.
  intros [Hok Hg He HL [Hxp Hxl] Hgv] Hg' Hp Ef El En Eg Ee. unfold gv in Eg. injection Eg as Eg1 Eg2.
  constructor.
  - unfold all_ok2. rewrite El. exact Hok.
  - exact Hg'.
  - rewrite Ee. exact He.
  - unfold once. rewrite Eg1, Ef, El, En. eapply Loc_perm; [exact HL|exact Hp|apply Permutation_refl|apply Permutation_refl].
  - split; [intros y Hy; rewrite El; apply Hxp; apply (Permutation_in _ (Permutation_sym Hp) Hy)|].
    rewrite El. intros i Hi. unfold get_lp. rewrite El. apply Hxl. exact Hi.
  - rewrite Eg1, Eg2. exact Hgv.
Qed.

Lemma heldl_app a b : heldl (a ++ b) = heldl a ++ heldl b.
Proof. apply flat_map_app. Qed.

Lemma hold_frame k : forall w, Permutation (pend w) (pend (hold k w)) /\ k_flags (hold k w) = k_flags w /\ k_lps (hold k w) = k_lps w /\
  k_next (hold k w) = k_next w /\ gv (hold k w) = gv w /\ k_err (hold k w) = k_err w.
Proof.
  induction k as [|k IH]; intros w; cbn [hold]; [repeat split; apply Permutation_refl|].
  pose proof (extract_perm w) as Hp. pose proof (extract_frame w) as Hfr. pose proof (extract_gv w) as Hgv.
  destruct (wq_extract w) as [[m|] w1]; cbn [snd] in *; cbn zeta in Hfr; destruct Hfr as (Ef & Enx & Eg & Elps & Eerr & Eep).
  - destruct (IH (set_held w1 (k_held w1 ++ [Some m]))) as (I1 & I2 & I3 & I4 & I5 & I6).
    split; [|rewrite I2, I3, I4, I5, I6; repeat split; assumption].
    eapply perm_trans; [exact Hp|]. eapply perm_trans; [|exact I1].
    unfold pend. cbn [set_held k_shared k_heap k_held]. rewrite heldl_app. cbn [heldl flat_map app].
    rewrite !app_assoc. apply Permutation_cons_append.
  - repeat split; assumption.
Qed.

Lemma set_nth_none_perm hs : forall j m, nth j hs None = Some m -> Permutation (m :: heldl (set_nth hs j None)) (heldl hs).
Proof.
  induction hs as [|h r IH]; intros j m Hn; [destruct j; discriminate|]. destruct j as [|j]; cbn [nth set_nth] in *.
  - subst h. cbn. apply Permutation_refl.
  - specialize (IH j m Hn). destruct h as [a|].
    + change (heldl (Some a :: ?t)) with (a :: heldl t). eapply perm_trans; [apply perm_swap|]. apply perm_skip. exact IH.
    + change (heldl (None :: ?t)) with (heldl t). exact IH.
Qed.

Lemma unhold_frame i w : Permutation (pend w) (pend (unhold i w)) /\ k_flags (unhold i w) = k_flags w /\ k_lps (unhold i w) = k_lps w /\
  k_next (unhold i w) = k_next w /\ gv (unhold i w) = gv w /\ k_err (unhold i w) = k_err w.
Proof.
  unfold unhold. destruct (k_held w) as [|h0 hs0] eqn:Eh; [repeat split; apply Permutation_refl|].
  set (hs := h0 :: hs0) in *. set (j := i mod length hs).
  destruct (nth j hs None) as [m|] eqn:En; [|repeat split; apply Permutation_refl].
  split; [|repeat split; reflexivity].
  unfold pend. cbn [wq_insert set_held k_shared k_heap k_held]. rewrite Eh. fold hs. cbn [app].
  apply Permutation_sym. eapply perm_trans; [apply Permutation_middle|]. apply Permutation_app_head.
  eapply perm_trans; [apply Permutation_middle|]. apply Permutation_app_head. apply set_nth_none_perm. exact En.
Qed.

Lemma unhold_all_frame w : Permutation (pend w) (pend (unhold_all w)) /\ k_flags (unhold_all w) = k_flags w /\ k_lps (unhold_all w) = k_lps w /\
  k_next (unhold_all w) = k_next w /\ gv (unhold_all w) = gv w /\ k_err (unhold_all w) = k_err w.
Proof.
  unfold unhold_all.
  assert (G : forall hs w0, let w1 := fold_left (fun w' h => match h with Some m => wq_insert w' m | None => w' end) hs w0 in
              Permutation (heldl hs ++ k_shared w0) (k_shared w1) /\ k_heap w1 = k_heap w0 /\ k_held w1 = k_held w0 /\ k_flags w1 = k_flags w0 /\
              k_lps w1 = k_lps w0 /\ k_next w1 = k_next w0 /\ gv w1 = gv w0 /\ k_err w1 = k_err w0).
  { induction hs as [|h r IH]; intros w0; cbn [fold_left]; [cbn; repeat split; apply Permutation_refl|].
    destruct h as [m|]; [|apply IH].
    destruct (IH (wq_insert w0 m)) as (I1 & I2 & I3 & I4 & I5 & I6 & I7 & I8). cbn zeta in *.
    split; [|repeat split; assumption]. eapply perm_trans; [|exact I1]. cbn [wq_insert k_shared heldl flat_map app]. apply Permutation_middle. }
  destruct (G (k_held w) w) as (I1 & I2 & I3 & I4 & I5 & I6 & I7 & I8). cbn zeta in *.
  split; [|repeat split; assumption].
  unfold pend. cbn [set_held k_shared k_heap k_held heldl flat_map]. rewrite I2, app_nil_r.
  eapply perm_trans; [|apply Permutation_app_tail; exact I1]. apply perm_rot3.
Qed.

Lemma transfer_full w : full w -> full (wq_transfer w).
Proof.
  intros Hf. apply (full_perm w); try reflexivity; [exact Hf|apply transfer_good; apply (f_good _ Hf)|apply Permutation_sym; apply transfer_perm].
Qed.

Lemma announce_full d w : full w -> full (announce d w) /\ k_lps (announce d w) = k_lps w.
Proof.
  intros Hf. destruct (announce_good d w (f_good _ Hf)) as [Hg He].
  pose proof (transfer_full w Hf) as Hf1.
  unfold announce, wq_peek in *. set (w1 := wq_transfer w) in *.
  destruct (min_held (k_held w1) (match k_heap w1 with [] => None | m :: _ => Some (e_t (wm_ev m)) end)) as [t|]; [|split; [exact Hf1|reflexivity]].
  destruct (Z.ltb_spec (Z.of_N t - Z.of_N d) (k_lastgvt w1)) as [Hlt|Hge]; cbn [orb]; [split; [exact Hf1|reflexivity]|].
  destruct (Z.leb (Z.of_N t - Z.of_N d) 0); [split; [exact Hf1|reflexivity]|].
  split; [|reflexivity].
  destruct Hf1 as [Hok _ He1 HL [Hxp Hxl] Hgv]. constructor; cbn [k_gvt k_lastgvt k_err k_lps]; try assumption.
  - unfold once in *. cbn [k_gvt k_flags k_lps k_next]. eapply Loc_gvt; [exact HL|lia].
  - split; [exact Hxp|exact Hxl].
  - lia.
Qed.

Lemma iter_full n : forall w, full w -> length (k_lps w) = N.to_nat (p_lps p) ->
  full (iter n (process_msg p ck) w) /\ length (k_lps (iter n (process_msg p ck) w)) = length (k_lps w).
Proof.
  induction n as [|n IH]; intros w Hf Hn; cbn [iter]; [split; [exact Hf|reflexivity]|].
  destruct (process_msg_full w Hf Hn) as [Hf' Hl']. destruct (IH _ Hf' ltac:(rewrite Hl'; exact Hn)) as [H1 H2].
  split; [exact H1|rewrite H2; exact Hl'].
Qed.

Lemma run_out_full fuel : forall w, full w -> length (k_lps w) = N.to_nat (p_lps p) ->
  full (fst (run_out p ck fuel w)) /\ length (k_lps (fst (run_out p ck fuel w))) = length (k_lps w).
Proof.
  induction fuel as [|fuel IH]; intros w Hf Hn; cbn [run_out]; [split; [exact Hf|reflexivity]|].
  unfold wq_peek. pose proof (transfer_full w Hf) as Hf1. set (w1 := wq_transfer w) in *.
  assert (Hl1 : length (k_lps w1) = length (k_lps w)) by reflexivity.
  destruct (k_heap w1); cbn [fst]; [split; [exact Hf1|exact Hl1]|].
  destruct (process_msg_full w1 Hf1 ltac:(rewrite Hl1; exact Hn)) as [Hf' Hl'].
  destruct (IH _ Hf' ltac:(rewrite Hl', Hl1; exact Hn)) as [H1 H2]. split; [exact H1|rewrite H2, Hl'; exact Hl1].
Qed.

Lemma wstep_full w o : full w -> length (k_lps w) = N.to_nat (p_lps p) ->
  full (wstep p ck w o) /\ length (k_lps (wstep p ck w o)) = length (k_lps w).
Proof.
  intros Hf Hn. destruct o as [n|k|i| |d|fuel]; cbn [wstep].
  - apply iter_full; assumption.
  - destruct (hold_frame k w) as (F1 & F2 & F3 & F4 & F5 & F6).
    split; [|rewrite F3; reflexivity]. apply (full_perm w); try assumption. apply (hold_good k w (f_good _ Hf)).
  - destruct (unhold_frame i w) as (F1 & F2 & F3 & F4 & F5 & F6).
    split; [|rewrite F3; reflexivity]. apply (full_perm w); try assumption. apply (unhold_good i w (f_good _ Hf)).
  - destruct (unhold_all_frame w) as (F1 & F2 & F3 & F4 & F5 & F6).
    split; [|rewrite F3; reflexivity]. apply (full_perm w); try assumption. apply (unhold_all_good w (f_good _ Hf)).
  - destruct (announce_full d w Hf) as [H1 H2]. split; [exact H1|rewrite H2; reflexivity].
  - destruct (unhold_all_frame w) as (F1 & F2 & F3 & F4 & F5 & F6).
    assert (Hf1 : full (unhold_all w)) by (apply (full_perm w); try assumption; apply (unhold_all_good w (f_good _ Hf))).
    destruct (run_out_full fuel (unhold_all w) Hf1 ltac:(rewrite F3; exact Hn)) as [H1 H2].
    split; [exact H1|rewrite H2, F3; reflexivity].
Qed.

(* ---------- initialisation ---------- *)
Hypothesis H_init : forall me e, In e (snd (lp_init p me)) -> e_dest e = me /\ (e_type e < LP_INIT_TYPE)%N.

Definition ini (w : worker) : Prop := once w [] /\ extra w /\ k_err w = false /\ gv w = (0%Z, 0%Z).

Lemma lp_extra_mono n n' l x : n <= n' -> lp_extra n l x -> lp_extra n' l x.
Proof. intros Hn (A & B & C & D). repeat split; try assumption; destruct (D m H); [assumption|lia]. Qed.

Lemma allprocs_snoc lps x : allprocs (lps ++ [x]) = allprocs lps ++ procs_of (x_hist x).
Proof. unfold allprocs. rewrite flat_map_app. cbn. rewrite app_nil_r. reflexivity. Qed.
Lemma allmarks_snoc lps x : allmarks (lps ++ [x]) = allmarks lps ++ marks_of (x_hist x).
Proof. unfold allmarks. rewrite flat_map_app. cbn. rewrite app_nil_r. reflexivity. Qed.

Lemma init_lp_ini w : ini w -> ini (init_lp p w (length (k_lps w))) /\ length (k_lps (init_lp p w (length (k_lps w)))) = S (length (k_lps w)).
Proof.
  intros (HL & [Hxp Hxl] & He & Hgv). set (l := length (k_lps w)). unfold init_lp.
  pose proof (H_init (N.of_nat l)) as Hin.
  destruct (lp_init p (N.of_nat l)) as [st evs]. cbn [snd] in Hin.
  set (im := mkWm (k_next w) (mkEv (N.of_nat l) 0 LP_INIT_TYPE [])).
  match goal with |- context [send_all ?w0 evs []] => set (w0' := w0) end.
  assert (HL0 : Loc (k_gvt w0') (k_flags w0') (pend w0') (im :: allprocs (k_lps w)) (allmarks (k_lps w)) (k_next w0')).
  { unfold w0'. cbn [k_gvt k_flags k_next]. change (pend _) with (pend w). apply Loc_fresh_proc. exact HL. }
  destruct (send_all_once evs w0' [] _ _ HL0) as (news & E1 & E2 & E3 & E4).
  pose proof (send_all_lps evs w0' []) as Elps.
  destruct (send_all_frame evs w0' []) as (B1 & _ & _ & _ & B5 & B6 & _). cbn zeta in *.
  destruct (send_all w0' evs []) as [w1 marks]. cbn [fst snd rev app] in *. subst marks.
  change (k_lps w0') with (k_lps w) in Elps.
  assert (Hnews : forall y, In y news -> tyok y /\ N.to_nat (e_dest (wm_ev y)) = l).
  { intros y Hy. destruct (Hin (wm_ev y) ltac:(rewrite <- E2; apply in_map; exact Hy)) as [Hd Ht]. split; [exact Ht|rewrite Hd; apply Nat2N.id]. }
  cbn [set_lps k_lps]. rewrite Elps. split. 2:{ rewrite app_length. cbn [length]. fold l. lia. }
  split; [|split; [|split]].
  - unfold once. cbn [set_lps k_gvt k_flags k_lps k_next app]. change (pend (set_lps w1 _)) with (pend w1).
    rewrite allprocs_snoc, allmarks_snoc. cbn [x_hist]. rewrite procs_app, marks_app, procs_map_sent, marks_map_sent. cbn [app procs_of marks_of flat_map].
    rewrite app_nil_r. eapply Loc_perm; [exact E4|apply Permutation_refl|apply Permutation_cons_append|apply Permutation_app_comm].
  - split.
    + intros y Hy. cbn [set_lps k_lps]. rewrite app_length. cbn [length]. fold l. change (pend (set_lps w1 _)) with (pend w1) in Hy.
      apply E3 in Hy. destruct Hy as [Hy|Hy]; [destruct (Hnews y Hy) as [H1 H2]; split; [exact H1|lia]|].
      change (pend w0') with (pend w) in Hy. destruct (Hxp y Hy) as [H1 H2]. split; [exact H1|fold l in H2; lia].
    + cbn [set_lps k_lps]. rewrite app_length. cbn [length]. fold l. intros i Hi. unfold get_lp. cbn [set_lps k_lps].
      destruct (Nat.lt_ge_cases i l) as [Hlt|Hge].
      * rewrite app_nth1 by exact Hlt. apply (lp_extra_mono l); [lia|]. apply Hxl. exact Hlt.
      * assert (i = l) by lia. subst i. rewrite app_nth2 by (fold l; lia). fold l. rewrite Nat.sub_diag. cbn [nth].
        unfold lp_extra, lp_base, base. cbn [x_logs x_hist last fst].
        split; [right; exists (map ESent news), im; split; [apply firstn_all|]; split; [|repeat split; reflexivity]|].
        { unfold all_sent. apply Forall_forall. intros e He'. apply in_map_iff in He'. destruct He' as (z & <- & _). reflexivity. }
        split; [rewrite skipn_all; intros m []|]. split.
        -- intros m Hm. apply in_app_or in Hm. destruct Hm as [Hm|[Hm|[]]]; [apply in_map_iff in Hm; destruct Hm as (z & Hz & _); discriminate|].
           injection Hm as <-. cbn. lia.
        -- intros m Hm. apply in_app_or in Hm. destruct Hm as [Hm|[Hm|[]]]; [|discriminate].
           apply in_map_iff in Hm. destruct Hm as (z & Hz & Hzin). injection Hz as ->. destruct (Hnews m Hzin) as [H1 H2]. split; [exact H1|lia].
  - cbn [set_lps k_err]. rewrite B6. exact He.
  - unfold gv in *. cbn [set_lps k_gvt k_lastgvt]. rewrite B1, B5. exact Hgv.
Qed.

Lemma w_init_ini : ini (w_init p) /\ length (k_lps (w_init p)) = N.to_nat (p_lps p).
Proof.
  unfold w_init. set (w0 := mkWk (PositiveMap.empty N) [] [] [] [] 1%positive 0 0 0 false).
  assert (H0 : ini w0).
  { split; [apply Loc_empty|]. split; [split; [intros m []|intros l Hl; cbn in Hl; lia]|]. split; reflexivity. }
  assert (G : forall k w, ini w -> ini (fold_left (init_lp p) (seq (length (k_lps w)) k) w) /\
                         length (k_lps (fold_left (init_lp p) (seq (length (k_lps w)) k) w)) = length (k_lps w) + k).
  { induction k as [|k IH]; intros w Hw; cbn [seq fold_left]; [split; [exact Hw|lia]|].
    destruct (init_lp_ini w Hw) as [H1 H2]. rewrite <- H2. destruct (IH _ H1) as [H3 H4]. split; [exact H3|rewrite H4, H2; lia]. }
  destruct (G (N.to_nat (p_lps p)) w0 H0) as [H1 H2]. split; [exact H1|exact H2].
Qed.

Theorem w_init_full : full (w_init p) /\ length (k_lps (w_init p)) = N.to_nat (p_lps p).
Proof.
  destruct w_init_ini as [(HL & Hx & He & Hg) Hn]. split; [|exact Hn].
  destruct (w_init_safe p H_time) as [Hok Hgood]. unfold gv in Hg. injection Hg as Hg1 Hg2.
  constructor; try assumption; [apply Hgood; exact He|rewrite Hg1, Hg2; lia].
Qed.

Theorem worker_full (ops : list wop) :
  full (fold_left (wstep p ck) ops (w_init p)) /\ length (k_lps (fold_left (wstep p ck) ops (w_init p))) = N.to_nat (p_lps p).
Proof.
  generalize w_init_full. generalize (w_init p). induction ops as [|o ops IH]; intros w [Hf Hn]; cbn [fold_left]; [split; assumption|].
  destruct (wstep_full w o Hf Hn) as [H1 H2]. apply IH. split; [exact H1|rewrite H2; exact Hn].
Qed.

End OnceProofs.
