(* Exactly-once cancellation and absence of the error flag on the worker model, for every script and every program whose
   event types stay below the reserved ones and whose destinations are hosted LPs (Part B: the worker's operations keep the
   location predicate of TW/WorkerOnce.v). *)
From Coq Require Import List ZArith NArith PArith Bool Arith Lia Sorted Permutation FMapPositive.
From RS Require Import Order.MsgOrderDefs Heap.HeapList Heap.HeapListProofs Heap.HeapTime TW.App TW.Seq TW.Worker TW.WorkerProofs TW.WorkerSafety TW.WorkerOnce.
Import ListNotations.
From AAC_tactics Require Import AAC.
From AAC_tactics Require Instances.
Import Instances.Lists.

Lemma perm_pull1 {A} (h a b r : list A) : Permutation (h ++ (a ++ b) ++ r) (a ++ h ++ b ++ r).
Proof. aac_reflexivity. Qed.
Lemma perm_pull2 {A} (h a b r : list A) : Permutation (h ++ (a ++ b) ++ r) (b ++ h ++ a ++ r).
Proof. aac_reflexivity. Qed.
Lemma perm_pull2' {A} (a b r : list A) : Permutation ((a ++ b) ++ r) (b ++ a ++ r).
Proof. aac_reflexivity. Qed.

Definition procs_of (h : list entry) : list wmsg := flat_map (fun e => match e with EProc m => [m] | ESent _ => [] end) h.
Definition marks_of (h : list entry) : list wmsg := flat_map (fun e => match e with ESent m => [m] | EProc _ => [] end) h.
Definition allprocs (lps : list lpx) : list wmsg := flat_map (fun x => procs_of (x_hist x)) lps.
Definition allmarks (lps : list lpx) : list wmsg := flat_map (fun x => marks_of (x_hist x)) lps.

Lemma procs_app a b : procs_of (a ++ b) = procs_of a ++ procs_of b.
Proof. apply flat_map_app. Qed.
Lemma marks_app a b : marks_of (a ++ b) = marks_of a ++ marks_of b.
Proof. apply flat_map_app. Qed.
Lemma in_procs h m : In m (procs_of h) <-> In (EProc m) h.
Proof.
  unfold procs_of. rewrite in_flat_map. split.
  - intros [e [He Hm]]. destruct e as [x|x]; [destruct Hm|]. destruct Hm as [<-|[]]. exact He.
  - intros H. exists (EProc m). split; [exact H|left; reflexivity].
Qed.
Lemma in_marks h m : In m (marks_of h) <-> In (ESent m) h.
Proof.
  unfold marks_of. rewrite in_flat_map. split.
  - intros [e [He Hm]]. destruct e as [x|x]; [|destruct Hm]. destruct Hm as [<-|[]]. exact He.
  - intros H. exists (ESent m). split; [exact H|left; reflexivity].
Qed.
Lemma procs_sent ms : all_sent ms -> procs_of ms = [].
Proof. induction 1 as [|e r He _ IH]; [reflexivity|]. destruct e; [exact IH|discriminate]. Qed.

(* singling out one LP *)
Definition rest {B} (g : lpx -> list B) (lps : list lpx) (l : nat) : list B := flat_map g (firstn l lps) ++ flat_map g (skipn (S l) lps).
Lemma split_lp {B} (g : lpx -> list B) lps l : l < length lps -> Permutation (flat_map g lps) (g (nth l lps lpx_dummy) ++ rest g lps l).
Proof.
  revert l. induction lps as [|x r IH]; intros l Hl; cbn in Hl; [lia|]. destruct l as [|l].
  - cbn. unfold rest. cbn. apply Permutation_refl.
  - cbn [flat_map nth]. unfold rest. cbn [firstn skipn flat_map]. specialize (IH l ltac:(lia)). unfold rest in IH.
    rewrite <- app_assoc. eapply perm_trans; [apply Permutation_app_head; exact IH|].
    rewrite !app_assoc. apply Permutation_app_tail. apply Permutation_app_tail. apply Permutation_app_comm.
Qed.
Lemma split_lp_set {B} (g : lpx -> list B) lps l x : l < length lps -> Permutation (flat_map g (set_nth lps l x)) (g x ++ rest g lps l).
Proof.
  revert l. induction lps as [|y r IH]; intros l Hl; cbn in Hl; [lia|]. destruct l as [|l].
  - cbn. unfold rest. cbn. apply Permutation_refl.
  - cbn [flat_map set_nth]. unfold rest. cbn [firstn skipn flat_map]. specialize (IH l ltac:(lia)). unfold rest in IH.
    rewrite <- app_assoc. eapply perm_trans; [apply Permutation_app_head; exact IH|].
    rewrite !app_assoc. apply Permutation_app_tail. apply Permutation_app_tail. apply Permutation_app_comm.
Qed.

Lemma pend_insert w m : pend (wq_insert w m) = m :: pend w.
Proof. reflexivity. Qed.

Definition once (w : worker) (hand : list wmsg) : Prop :=
  Loc (k_gvt w) (k_flags w) (pend w) (hand ++ allprocs (k_lps w)) (allmarks (k_lps w)) (k_next w).

(* ---------- send_anti_messages ---------- *)
Lemma m32_small x : (x < 4294967296)%N -> m32 x = x.
Proof. intros H. unfold m32. apply N.mod_small. exact H. Qed.

Lemma undo_all_loc es : forall w pr mk,
  Loc (k_gvt w) (k_flags w) (pend w) (procs_of es ++ pr) (marks_of es ++ mk) (k_next w) ->
  (forall m, In (ESent m) es -> (k_gvt w <= Z.of_N (tm m))%Z) ->
  let w' := fold_left undo_entry es w in
  Loc (k_gvt w') (k_flags w') (pend w') pr mk (k_next w') /\ k_next w' = k_next w.
Proof.
  induction es as [|e es IH]; intros w pr mk HL Hge; cbn [fold_left].
  - split; [exact HL|reflexivity].
  - destruct e as [m|m].
    + (* a marker *)
      change (procs_of (ESent m :: es)) with (procs_of es) in HL.
      change (marks_of (ESent m :: es) ++ mk) with (m :: (marks_of es ++ mk)) in HL.
      assert (Hgm : (k_gvt w <= Z.of_N (tm m))%Z) by (apply Hge; left; reflexivity).
      assert (Hstep : let w1 := undo_entry w (ESent m) in
                      Loc (k_gvt w1) (k_flags w1) (pend w1) (procs_of es ++ pr) (marks_of es ++ mk) (k_next w1) /\ k_next w1 = k_next w /\ k_gvt w1 = k_gvt w).
      { destruct (Loc_unmark _ _ _ _ _ _ _ HL Hgm) as [[Hf HL']|[Hf HL']]; cbn zeta; unfold undo_entry, flag_add; fold (fl (k_flags w) m); rewrite Hf.
        - cbn. split; [exact HL'|split; reflexivity].
        - cbn. split; [exact HL'|split; reflexivity]. }
      cbn zeta in Hstep. destruct Hstep as (H1 & H2 & H3).
      destruct (IH (undo_entry w (ESent m)) pr mk H1) as [H4 H5].
      { intros x Hx. rewrite H3. apply Hge. right. exact Hx. }
      split; [exact H4|rewrite H5; exact H2].
    + (* a processed message *)
      change (marks_of (EProc m :: es)) with (marks_of es) in HL.
      change (procs_of (EProc m :: es) ++ pr) with (m :: (procs_of es ++ pr)) in HL.
      assert (Hstep : let w1 := undo_entry w (EProc m) in
                      Loc (k_gvt w1) (k_flags w1) (pend w1) (procs_of es ++ pr) (marks_of es ++ mk) (k_next w1) /\ k_next w1 = k_next w /\ k_gvt w1 = k_gvt w).
      { destruct (Loc_unproc _ _ _ _ _ _ _ HL) as [[Hf HL']|[[Hf HL']|[Hf HL']]]; cbn zeta; unfold undo_entry, flag_sub; fold (fl (k_flags w) m); rewrite Hf.
        - cbn. split; [exact HL'|split; reflexivity].
        - cbn. split; [exact HL'|split; reflexivity].
        - cbn. split; [exact HL'|split; reflexivity]. }
      cbn zeta in Hstep. destruct Hstep as (H1 & H2 & H3).
      destruct (IH (undo_entry w (EProc m)) pr mk H1) as [H4 H5].
      { intros x Hx. rewrite H3. apply Hge. right. exact Hx. }
      split; [exact H4|rewrite H5; exact H2].
Qed.

Section OnceProofs.
Variable p : prog.
Variable ck : nat.
Hypothesis H_time : forall ev st e, In e (snd (handle p ev st)) -> (e_t ev <= e_t e)%N.

Lemma base_eq x newer r0 s0 : x_logs x = newer ++ [(r0, s0)] -> base x = (r0, s0).
Proof. intros E. unfold base. rewrite E. apply last_last. Qed.

(* the markers of undone groups are not earlier than the earliest undone processed message *)
Lemma undone_ge x past (lo : N) : lp_ok2 p x -> bnd (x_hist x) past -> fst (base x) <= past -> past <= length (x_hist x) ->
  (forall m, In (EProc m) (skipn past (x_hist x)) -> (lo <= tm m)%N) ->
  forall m, In (ESent m) (skipn past (x_hist x)) -> (lo <= tm m)%N.
Proof.
  intros [(newer & r0 & s0 & El & Hs & Hsn & Hst) [Hh Hb]] Hbnd Hr0 Hpl Hproc.
  rewrite (base_eq x newer r0 s0 El) in Hh, Hr0. cbn [fst snd] in Hh, Hr0.
  destruct (hist_ok_bnd p (skipn r0 (x_hist x)) s0 (past - r0) Hh) as [_ H2].
  { apply bnd_skipn; [exact Hbnd|exact Hr0]. }
  { rewrite skipn_length. lia. }
  rewrite skipn_skipn in H2. replace (past - r0 + r0) with past in H2 by lia.
  destruct (hist_ok_sent_ge p H_time _ _ [] lo H2 Hproc) as [_ Hsent]. exact Hsent.
Qed.

Lemma drop_newer_some x past : lp_ok p x -> fst (base x) <= past -> drop_newer (x_logs x) past <> [].
Proof.
  intros (newer & r0 & s0 & El & Hs & Hsn & Hst) Hr0 Hd.
  rewrite (base_eq x newer r0 s0 El) in Hr0. cbn [fst] in Hr0.
  pose proof (drop_newer_spec (x_logs x) past Hs) as Hspec. rewrite Hd in Hspec.
  specialize (Hspec (r0, s0) ltac:(rewrite El; apply in_or_app; right; left; reflexivity)). cbn [fst] in Hspec. lia.
Qed.

Lemma get_lp_set w l x : l < length (k_lps w) -> get_lp (put_lp w l x) l = x.
Proof. intros Hl. unfold get_lp. cbn [put_lp set_lps k_lps]. apply nth_set_nth. exact Hl. Qed.

Lemma do_rollback_once w l past (lo : N) hand :
  all_ok2 p w -> l < length (k_lps w) ->
  bnd (x_hist (get_lp w l)) past -> fst (base (get_lp w l)) <= past -> past <= length (x_hist (get_lp w l)) ->
  (k_gvt w <= Z.of_N lo)%Z ->
  (forall m, In (EProc m) (skipn past (x_hist (get_lp w l))) -> (lo <= tm m)%N) ->
  once w hand ->
  let w' := do_rollback p w l past in
  k_err w' = k_err w /\ once w' hand /\ k_next w' = k_next w /\ k_gvt w' = k_gvt w /\
  (forall y, In y (pend w') -> In y (pend w) \/ In (EProc y) (skipn past (x_hist (get_lp w l))) \/ In (ESent y) (skipn past (x_hist (get_lp w l)))).
Proof.
  intros Hok Hl Hbnd Hr0 Hpl Hlo Hproc HL.
  set (x := get_lp w l) in *. set (es := skipn past (x_hist x)). set (keep := firstn past (x_hist x)).
  assert (Hx2 : lp_ok2 p x) by (apply get_ok2; assumption).
  pose proof (undone_ge x past lo Hx2 Hbnd Hr0 Hpl Hproc) as Hsent.
  assert (Ehist : x_hist x = keep ++ es) by (symmetry; apply firstn_skipn).
  (* regroup the lists around the undone entries *)
  assert (HL1 : Loc (k_gvt w) (k_flags w) (pend w) (procs_of es ++ (hand ++ procs_of keep ++ rest (fun y => procs_of (x_hist y)) (k_lps w) l))
                    (marks_of es ++ (marks_of keep ++ rest (fun y => marks_of (x_hist y)) (k_lps w) l)) (k_next w)).
  { eapply Loc_perm; [exact HL|apply Permutation_refl| |].
    - unfold allprocs. eapply perm_trans; [apply Permutation_app_head; apply (split_lp (fun y => procs_of (x_hist y)) (k_lps w) l Hl)|].
      fold (get_lp w l). fold x. rewrite Ehist, procs_app. apply perm_pull2.
    - unfold allmarks. eapply perm_trans; [apply (split_lp (fun y => marks_of (x_hist y)) (k_lps w) l Hl)|].
      fold (get_lp w l). fold x. rewrite Ehist, marks_app. apply perm_pull2'. }
  destruct (undo_all_loc es w _ _ HL1) as [HL2 Enx].
  { intros m Hm. specialize (Hsent m Hm). lia. }
  destruct (undo_all_frame es w) as (B1 & B2 & B3 & B4 & B5 & B6). cbn zeta in *.
  unfold do_rollback. fold x. fold es. fold keep.
  set (w1 := fold_left undo_entry es w) in *.
  assert (E1 : k_lps w1 = k_lps w) by apply undo_all_lps.
  assert (Eerr : k_err w1 = k_err w) by apply undo_all_err.
  pose proof (drop_newer_some x past (proj1 Hx2) Hr0) as Hne.
  destruct (drop_newer (x_logs x) past) as [|[ref snap] older]; [congruence|].
  cbn [put_lp set_lps k_err k_next k_gvt]. split; [exact Eerr|]. split; [|split; [exact Enx|split; [exact B1|]]].
  - unfold once. cbn [put_lp set_lps k_gvt k_flags k_lps k_next]. change (pend (set_lps w1 _)) with (pend w1).
    eapply Loc_perm; [exact HL2|apply Permutation_refl| |].
    + apply Permutation_app_head. unfold allprocs. rewrite E1. apply Permutation_sym.
      match goal with |- Permutation (flat_map _ (set_nth _ _ ?X)) _ => exact (split_lp_set (fun y => procs_of (x_hist y)) (k_lps w) l X Hl) end.
    + unfold allmarks. rewrite E1. apply Permutation_sym.
      match goal with |- Permutation (flat_map _ (set_nth _ _ ?X)) _ => exact (split_lp_set (fun y => marks_of (x_hist y)) (k_lps w) l X Hl) end.
  - intros y Hy. change (pend (set_lps w1 _)) with (pend w1) in Hy. destruct (B6 y Hy) as [H|H]; [left; exact H|right].
    apply in_map_iff in H. destruct H as (e & <- & He). destruct e as [m|m]; cbn [entry_msg]; [right|left]; exact He.
Qed.

(* ---------- ScheduleNewEvent ---------- *)
Lemma send_all_once outs : forall w acc pr mk,
  Loc (k_gvt w) (k_flags w) (pend w) pr mk (k_next w) ->
  exists news, snd (send_all w outs acc) = rev acc ++ map ESent news /\ map wm_ev news = outs /\
    (forall y, In y (pend (fst (send_all w outs acc))) <-> In y news \/ In y (pend w)) /\
    Loc (k_gvt (fst (send_all w outs acc))) (k_flags (fst (send_all w outs acc))) (pend (fst (send_all w outs acc))) pr (news ++ mk)
        (k_next (fst (send_all w outs acc))).
Proof.
  induction outs as [|e r IH]; intros w acc pr mk HL; cbn [send_all].
  - exists []. cbn [fst snd map app]. rewrite app_nil_r. split; [reflexivity|]. split; [reflexivity|]. split; [|exact HL].
    intros y. cbn [In]. tauto.
  - set (m := mkWm (k_next w) e).
    match goal with |- context [send_all ?w0 r ?a] => set (w1 := w0) end.
    assert (HL1 : Loc (k_gvt w1) (k_flags w1) (pend w1) pr (m :: mk) (k_next w1)).
    { unfold w1. cbn [k_gvt k_flags k_next]. change (pend _) with (m :: pend w). apply Loc_fresh. exact HL. }
    destruct (IH w1 (ESent m :: acc) pr (m :: mk) HL1) as (news & E1 & E2 & E3 & E4).
    exists (m :: news). split; [|split; [|split]].
    + rewrite E1. cbn [rev map]. rewrite <- app_assoc. reflexivity.
    + cbn [map]. rewrite E2. reflexivity.
    + intros y. rewrite E3. change (pend w1) with (m :: pend w). cbn [In]. tauto.
    + eapply Loc_perm; [exact E4|apply Permutation_refl|apply Permutation_refl|].
      cbn [app]. apply Permutation_sym. apply Permutation_middle.
Qed.

Lemma procs_map_sent news : procs_of (map ESent news) = [].
Proof. induction news; [reflexivity|exact IHnews]. Qed.
Lemma marks_map_sent news : marks_of (map ESent news) = news.
Proof. induction news as [|a r IH]; [reflexivity|]. cbn [map]. change (marks_of (ESent a :: map ESent r)) with (a :: marks_of (map ESent r)). rewrite IH. reflexivity. Qed.

(* forward execution of the message in hand *)
Lemma forward_once w l m : l < length (k_lps w) -> once w [m] ->
  once (forward p ck w l m) [] /\
  (forall y, In y (pend (forward p ck w l m)) -> In y (pend w) \/ In (wm_ev y) (snd (handle p (wm_ev m) (x_st (get_lp w l))))).
Proof.
  intros Hl HL. unfold forward.
  destruct (handle p (wm_ev m) (x_st (get_lp w l))) as [st' outs] eqn:Eh.
  destruct (send_all_once outs w [] _ _ HL) as (news & E1 & E2 & E3 & E4).
  pose proof (send_all_lps outs w []) as Elps.
  destruct (send_all w outs []) as [w1 marks]. cbn [fst snd] in *. cbn [rev app] in E1. subst marks.
  split.
  - unfold once. cbn [put_lp set_lps k_gvt k_flags k_lps k_next]. change (pend (set_lps w1 _)) with (pend w1).
    eapply Loc_perm; [exact E4|apply Permutation_refl| |].
    + cbn [app]. unfold allprocs. rewrite Elps. apply Permutation_sym.
      match goal with |- Permutation (flat_map _ (set_nth _ _ ?X)) _ => eapply perm_trans; [exact (split_lp_set (fun y => procs_of (x_hist y)) (k_lps w) l X Hl)|] end.
      cbn [x_hist]. rewrite !procs_app, procs_map_sent. cbn [app procs_of flat_map].
      apply Permutation_sym. rewrite <- app_assoc. cbn [app]. apply Permutation_cons_app.
      apply (split_lp (fun y => procs_of (x_hist y)) (k_lps w) l Hl).
    + unfold allmarks. rewrite Elps. apply Permutation_sym.
      match goal with |- Permutation (flat_map _ (set_nth _ _ ?X)) _ => eapply perm_trans; [exact (split_lp_set (fun y => marks_of (x_hist y)) (k_lps w) l X Hl)|] end.
      cbn [x_hist]. rewrite !marks_app, marks_map_sent. cbn [app marks_of flat_map]. rewrite app_nil_r.
      eapply perm_trans; [|apply Permutation_app_head; apply Permutation_sym; apply (split_lp (fun y => marks_of (x_hist y)) (k_lps w) l Hl)].
      fold (get_lp w l). rewrite app_assoc. apply Permutation_app_tail. apply Permutation_app_comm.
  - intros y Hy. change (pend (put_lp w1 _ _)) with (pend w1) in Hy. apply E3 in Hy. destruct Hy as [Hy|Hy]; [right|left; exact Hy].
    cbn [snd]. rewrite <- E2. apply in_map. exact Hy.
Qed.

(* ---------- the base of an LP's history: index 0 after a fossil collection, the LP_INIT message before ---------- *)
Definition lp_base (x : lpx) : Prop :=
  fst (base x) = 0 \/
  exists marks im, firstn (fst (base x)) (x_hist x) = marks ++ [EProc im] /\ all_sent marks /\
                   e_type (wm_ev im) = LP_INIT_TYPE /\ e_t (wm_ev im) = 0%N /\ e_pl (wm_ev im) = [].

Lemma base_le_len x : lp_ok p x -> fst (base x) <= length (x_hist x).
Proof.
  intros (newer & r0 & s0 & El & Hs & Hsn & Hst). rewrite (base_eq x newer r0 s0 El). cbn [fst].
  apply (Hsn r0 s0). rewrite El. apply in_or_app. right. left. reflexivity.
Qed.

Lemma base_proc_index x j m : lp_ok p x -> lp_base x -> nth_error (x_hist x) j = Some (EProc m) -> fst (base x) <= S j.
Proof.
  intros Hok [H0|(marks & im & Ef & Hs & _)] Hn; [lia|].
  pose proof (base_le_len x Hok) as Hle.
  assert (Hlen : fst (base x) = length marks + 1).
  { rewrite <- (firstn_length_le (x_hist x) Hle). rewrite Ef, app_length. reflexivity. }
  destruct (Nat.lt_ge_cases j (length marks)) as [Hlt|Hge]; [exfalso|lia].
  assert (E : nth_error (firstn (fst (base x)) (x_hist x)) j = Some (EProc m)).
  { rewrite nth_error_firstn_lt by lia. exact Hn. }
  rewrite Ef, nth_error_app1 in E by exact Hlt. apply nth_error_In in E.
  unfold all_sent in Hs. rewrite Forall_forall in Hs. specialize (Hs _ E). discriminate.
Qed.

Lemma Loc_release_all g f pd mk nx rel : forall pr, Loc g f pd (rel ++ pr) mk nx ->
  (forall m, In m rel -> (Z.of_N (tm m) < g)%Z) -> (forall x, In x pd -> (g <= Z.of_N (tm x))%Z) -> Loc g f pd pr mk nx.
Proof.
  induction rel as [|m rel IH]; intros pr HL Hlt Hge; [exact HL|].
  apply IH; [|intros y Hy; apply Hlt; right; exact Hy|exact Hge].
  apply (Loc_release g f m); [exact HL|apply Hlt; left; reflexivity|exact Hge].
Qed.
Lemma Loc_drop_marks g f pd pr nx rel : forall mk, Loc g f pd pr (rel ++ mk) nx -> Loc g f pd pr mk nx.
Proof.
  induction rel as [|m rel IH]; intros mk HL; [exact HL|]. apply IH. apply (Loc_drop_mark g f m). exact HL.
Qed.

Lemma fossil_kept x tgt ref snap older : StronglySorted decr (x_logs x) -> drop_newer (x_logs x) tgt = (ref, snap) :: older ->
  exists pre, firstn (length (x_logs x) - length (drop_newer (x_logs x) tgt) + 1) (x_logs x) = pre ++ [(ref, snap)].
Proof.
  intros Hs Hd. pose proof (drop_newer_spec (x_logs x) tgt Hs) as Hspec. rewrite Hd in Hspec.
  destruct Hspec as (pre & E & Hle & Hpre). exists pre.
  rewrite Hd. rewrite E at 1 2. rewrite app_length. cbn [length].
  replace (length pre + S (length older) - S (length older) + 1) with (length (pre ++ [(ref, snap)])) by (rewrite app_length; cbn; lia).
  replace (pre ++ (ref, snap) :: older) with ((pre ++ [(ref, snap)]) ++ older) by (rewrite <- app_assoc; reflexivity).
  rewrite firstn_app, firstn_all, Nat.sub_diag, firstn_O, app_nil_r. reflexivity.
Qed.

(* per-LP fossil collection: no error, the location predicate is kept (for any pending list above the GVT), the new base is 0 *)
Lemma fossil_once w l pd hand :
  all_ok2 p w -> Forall lp_time (k_lps w) -> l < length (k_lps w) -> lp_base (get_lp w l) ->
  Loc (k_gvt w) (k_flags w) pd (hand ++ allprocs (k_lps w)) (allmarks (k_lps w)) (k_next w) ->
  (forall y, In y pd -> (k_gvt w <= Z.of_N (tm y))%Z) ->
  let w' := fossil_lp w l in
  k_err w' = k_err w /\ k_gvt w' = k_gvt w /\ k_flags w' = k_flags w /\ k_next w' = k_next w /\ pend w' = pend w /\
  length (k_lps w') = length (k_lps w) /\ k_epoch w' = k_epoch w /\
  Loc (k_gvt w') (k_flags w') pd (hand ++ allprocs (k_lps w')) (allmarks (k_lps w')) (k_next w') /\
  lp_base (get_lp w' l) /\ (forall i, i <> l -> get_lp w' i = get_lp w i) /\
  (get_lp w' l = get_lp w l \/
   exists r, x_hist (get_lp w' l) = skipn r (x_hist (get_lp w l)) /\ fst (base (get_lp w l)) <= r /\ fst (base (get_lp w' l)) = 0).
Proof.
  intros Hok Htime Hl Hbase HL Hge. unfold fossil_lp.
  set (x := get_lp w l) in *.
  assert (Hx2 : lp_ok2 p x) by (apply get_ok2; assumption).
  destruct (newest_below (k_gvt w) (rev (x_hist x)) (length (x_hist x))) as [past|] eqn:En.
  2:{ cbn zeta. do 7 (split; [reflexivity|]). split; [exact HL|]. split; [exact Hbase|]. split; [intros i _; reflexivity|].
      left. reflexivity. }
  destruct (newest_below_spec ck (k_gvt w) (rev (x_hist x)) (length (x_hist x)) past (rev_length _) En) as (m0 & Hn0 & Ht0 & Hp).
  rewrite rev_involutive in Hn0.
  pose proof (base_proc_index x past m0 (proj1 Hx2) Hbase Hn0) as Hr0.
  pose proof (drop_newer_some x (past + 1) (proj1 Hx2) ltac:(lia)) as Hne.
  destruct (drop_newer (x_logs x) (past + 1)) as [|[ref snap] older] eqn:Hd; [congruence|].
  destruct (proj1 Hx2) as (newer & r0 & s0 & El & Hs & Hsn & Hst).
  assert (Hxt : lp_time x) by (rewrite Forall_forall in Htime; apply Htime; unfold x, get_lp; apply nth_In; exact Hl).
  pose proof (fossil_releases_below p ck H_time x (k_gvt w) past ref snap older (proj1 Hxt) En Hs Hd) as Hrel.
  pose proof (drop_newer_spec (x_logs x) (past + 1) Hs) as Hspec. rewrite Hd in Hspec. destruct Hspec as (pre0 & E0 & Hle0 & _). cbn [fst] in Hle0.
  assert (Hrefge : fst (base x) <= ref).
  { rewrite (base_eq x newer r0 s0 El). cbn [fst]. apply (base_least newer r0 s0 ref snap); [rewrite <- El; exact Hs|].
    rewrite <- El, E0. apply in_or_app. right. left. reflexivity. }
  cbn zeta. cbn [put_lp set_lps k_err k_gvt k_flags k_next k_lps k_epoch].
  split; [reflexivity|]. split; [reflexivity|]. split; [reflexivity|]. split; [reflexivity|]. split; [reflexivity|].
  split; [apply set_nth_length|]. split; [reflexivity|].
  assert (Ehist : x_hist x = firstn ref (x_hist x) ++ skipn ref (x_hist x)) by (symmetry; apply firstn_skipn).
  split; [|split; [|split]].
  - (* location predicate *)
    assert (HL1 : Loc (k_gvt w) (k_flags w) pd
                    (procs_of (firstn ref (x_hist x)) ++ (hand ++ procs_of (skipn ref (x_hist x)) ++ rest (fun y => procs_of (x_hist y)) (k_lps w) l))
                    (marks_of (firstn ref (x_hist x)) ++ (marks_of (skipn ref (x_hist x)) ++ rest (fun y => marks_of (x_hist y)) (k_lps w) l)) (k_next w)).
    { eapply Loc_perm; [exact HL|apply Permutation_refl| |].
      - unfold allprocs. eapply perm_trans; [apply Permutation_app_head; apply (split_lp (fun y => procs_of (x_hist y)) (k_lps w) l Hl)|].
        fold (get_lp w l). fold x. rewrite Ehist at 1. rewrite procs_app. apply perm_pull1.
      - unfold allmarks. eapply perm_trans; [apply (split_lp (fun y => marks_of (x_hist y)) (k_lps w) l Hl)|].
        fold (get_lp w l). fold x. rewrite Ehist at 1. rewrite marks_app. rewrite <- !app_assoc. apply Permutation_refl. }
    apply Loc_release_all in HL1; [|intros m Hm; apply Hrel; apply in_procs; exact Hm|exact Hge].
    apply Loc_drop_marks in HL1.
    eapply Loc_perm; [exact HL1|apply Permutation_refl| |].
    + apply Permutation_app_head. unfold allprocs. apply Permutation_sym.
      match goal with |- Permutation (flat_map _ (set_nth _ _ ?X)) _ => exact (split_lp_set (fun y => procs_of (x_hist y)) (k_lps w) l X Hl) end.
    + unfold allmarks. apply Permutation_sym.
      match goal with |- Permutation (flat_map _ (set_nth _ _ ?X)) _ => exact (split_lp_set (fun y => marks_of (x_hist y)) (k_lps w) l X Hl) end.
  - (* the new base is index 0 *)
    left. unfold get_lp. cbn [k_lps set_lps put_lp]. rewrite nth_set_nth by exact Hl. unfold base. cbn [x_logs].
    destruct (fossil_kept x (past + 1) ref snap older Hs Hd) as (pre & Ek). rewrite Hd in Ek. cbn [length] in Ek.
    cbn [length]. rewrite Ek, map_app. cbn [map]. rewrite last_last. cbn [fst]. lia.
  - intros i Hi. unfold get_lp. cbn [k_lps set_lps put_lp]. apply (nth_set_nth_other ck). exact Hi.
  - right. exists ref. split; [|split; [exact Hrefge|]].
    + unfold get_lp. cbn [k_lps set_lps put_lp]. rewrite nth_set_nth by exact Hl. reflexivity.
    + unfold get_lp. cbn [k_lps set_lps put_lp]. rewrite nth_set_nth by exact Hl. unfold base. cbn [x_logs].
      destruct (fossil_kept x (past + 1) ref snap older Hs Hd) as (pre & Ek). rewrite Hd in Ek. cbn [length] in Ek.
      cbn [length]. rewrite Ek, map_app. cbn [map]. rewrite last_last. cbn [fst]. lia.
Qed.

(* ---------- the queue: transfers and extraction only permute the pending messages ---------- *)
Lemma transfer_perm w : Permutation (pend (wq_transfer w)) (pend w).
Proof.
  unfold pend, wq_transfer. cbn [k_shared k_heap k_held set_queue app].
  rewrite app_assoc. apply Permutation_app_tail. apply fold_insert_perm.
Qed.
Lemma extract_perm w : match wq_extract w with
                       | (Some m, w1) => Permutation (pend w) (m :: pend w1)
                       | (None, w1) => Permutation (pend w) (pend w1)
                       end.
Proof.
  unfold wq_extract.
  destruct (heap_extract wmsg wm_dummy (wbefore (k_flags (wq_transfer w))) (k_heap (wq_transfer w))) as [[m h']|] eqn:E.
  - pose proof (heap_extract_perm wmsg wm_dummy _ _ _ _ E) as Hp.
    eapply perm_trans; [apply Permutation_sym; apply transfer_perm|].
    unfold pend. cbn [k_shared k_heap k_held set_queue wq_transfer app].
    change (m :: h' ++ heldl (k_held w)) with ((m :: h') ++ heldl (k_held w)). apply Permutation_app_tail. apply Permutation_sym. exact Hp.
  - apply Permutation_sym. apply transfer_perm.
Qed.

(* replacing an LP by one with the same history changes neither list *)
Lemma flat_map_set_same {B} (g : lpx -> list B) lps : forall l x, l < length lps -> g x = g (nth l lps lpx_dummy) ->
  flat_map g (set_nth lps l x) = flat_map g lps.
Proof.
  induction lps as [|y r IH]; intros l x Hl E; cbn in Hl; [lia|]. destruct l as [|l]; cbn [set_nth flat_map nth] in *.
  - rewrite E. reflexivity.
  - rewrite (IH l x ltac:(lia) E). reflexivity.
Qed.

(* ---------- types, destinations, and the base of every LP ---------- *)
Definition tyok (m : wmsg) : Prop := (e_type (wm_ev m) < LP_INIT_TYPE)%N.
Definition lp_extra (n l : nat) (x : lpx) : Prop :=
  lp_base x /\
  (forall m, In (EProc m) (skipn (fst (base x)) (x_hist x)) -> tyok m) /\
  (forall m, In (EProc m) (x_hist x) -> N.to_nat (e_dest (wm_ev m)) = l) /\
  (forall m, In (ESent m) (x_hist x) -> tyok m /\ N.to_nat (e_dest (wm_ev m)) < n).
Definition extra (w : worker) : Prop :=
  (forall m, In m (pend w) -> tyok m /\ N.to_nat (e_dest (wm_ev m)) < length (k_lps w)) /\
  (forall l, l < length (k_lps w) -> lp_extra (length (k_lps w)) l (get_lp w l)).

Lemma in_skipn {A} (l : list A) n x : In x (skipn n l) -> In x l.
Proof. intros H. rewrite <- (firstn_skipn n l). apply in_or_app. right. exact H. Qed.
Lemma in_firstn {A} (l : list A) n x : In x (firstn n l) -> In x l.
Proof. intros H. rewrite <- (firstn_skipn n l). apply in_or_app. left. exact H. Qed.

Lemma last_suffix {A} (pre suf : list A) d : suf <> [] -> last (pre ++ suf) d = last suf d.
Proof.
  intros Hne. induction pre as [|a pre IH]; [reflexivity|]. cbn [app].
  assert (Hne2 : pre ++ suf <> []) by (destruct pre; [exact Hne|discriminate]).
  destruct (pre ++ suf) as [|b t]; [congruence|]. exact IH.
Qed.

Lemma rollback_lp_extra n l x past ref snap older b st :
  lp_ok p x -> lp_extra n l x -> fst (base x) <= past -> drop_newer (x_logs x) past = (ref, snap) :: older ->
  lp_extra n l (mkLpx (firstn past (x_hist x)) b st ((ref, snap) :: older) (x_rem x) (x_epoch x)).
Proof.
  intros Hok (Hb & Ht & Hd & Hm) Hr0 Hdn.
  destruct Hok as (newer & r0 & s0 & El & Hs & Hsn & Hst).
  pose proof (drop_newer_spec (x_logs x) past Hs) as Hspec. rewrite Hdn in Hspec. destruct Hspec as (pre & E & _ & _).
  assert (Eb : base (mkLpx (firstn past (x_hist x)) b st ((ref, snap) :: older) (x_rem x) (x_epoch x)) = base x).
  { unfold base. cbn [x_logs]. rewrite E. symmetry. apply last_suffix. discriminate. }
  unfold lp_extra, lp_base. rewrite !Eb. cbn [x_hist]. split; [|split; [|split]].
  - destruct Hb as [H0|(marks & im & Ef & Hrest)]; [left; exact H0|right].
    exists marks, im. split; [|exact Hrest]. rewrite firstn_firstn. replace (Nat.min (fst (base x)) past) with (fst (base x)) by lia. exact Ef.
  - intros m Hin. apply Ht. rewrite skipn_firstn_comm in Hin. apply in_firstn in Hin. exact Hin.
  - intros m Hin. apply Hd. apply in_firstn in Hin. exact Hin.
  - intros m Hin. apply Hm. apply in_firstn in Hin. exact Hin.
Qed.

Hypothesis H_type : forall ev st e, In e (snd (handle p ev st)) -> (e_type e < LP_INIT_TYPE)%N.
Hypothesis H_dest : forall ev st e, In e (snd (handle p ev st)) -> (e_dest ev < p_lps p)%N -> (e_dest e < p_lps p)%N.

(* nothing that can arrive is ordered before an LP's LP_INIT message *)
Lemma not_before_init f s im : fl f s = 2%N -> tyok s ->
  e_type (wm_ev im) = LP_INIT_TYPE -> e_t (wm_ev im) = 0%N -> e_pl (wm_ev im) = [] -> wbefore f s im = false.
Proof.
  intros Hf Hty Ety Et Epl. unfold wbefore, before, rt_msg. cbn [m_t].
  rewrite Et. cbn [Z.of_N].
  destruct (Z.ltb_spec (Z.of_N (e_t (wm_ev s))) 0) as [H|_]; [lia|]. cbn [orb].
  destruct (Z.eqb (Z.of_N (e_t (wm_ev s))) 0); [|reflexivity]. cbn [andb].
  unfold before_ext, anti_bit. cbn [m_flags m_type m_plsize m_pl payload].
  unfold fl in Hf. rewrite Hf. cbn [Z.of_N Z.land Pos.land].
  change (Z.land 2 1) with 0%Z.
  set (ai := Z.land (Z.of_N (flag_of f (wm_id im))) 1).
  assert (Hai : (0 <= ai)%Z) by (unfold ai; apply Z.land_nonneg; right; lia).
  destruct (Z.eqb_spec 0 ai) as [_|_]; cbn [negb]; [|apply Z.ltb_ge; exact Hai].
  rewrite Ety, Epl. unfold tyok in Hty. cbn [length Z.of_nat].
  destruct (Z.eqb_spec (Z.of_N (e_type (wm_ev s))) (Z.of_N LP_INIT_TYPE)) as [E|_]; cbn [negb]; [lia|].
  apply Z.ltb_ge. lia.
Qed.

Lemma nth_error_base_init x marks im : lp_ok p x -> firstn (fst (base x)) (x_hist x) = marks ++ [EProc im] ->
  fst (base x) = S (length marks) /\ nth_error (x_hist x) (length marks) = Some (EProc im).
Proof.
  intros Hok Ef. pose proof (base_le_len x Hok) as Hle.
  assert (Hlen : fst (base x) = S (length marks)).
  { rewrite <- (firstn_length_le (x_hist x) Hle). rewrite Ef, app_length. cbn. lia. }
  split; [exact Hlen|].
  rewrite <- (nth_error_firstn_lt (x_hist x) (fst (base x)) (length marks)) by lia.
  rewrite Ef, nth_error_app2, Nat.sub_diag by lia. reflexivity.
Qed.

Lemma straggler_ge_base f s x lastm : lp_ok p x -> lp_base x -> fl f s = 2%N -> tyok s ->
  last_proc (x_hist x) = Some lastm -> wbefore f s lastm = true ->
  fst (base x) <= straggler_index f s (x_hist x).
Proof.
  intros Hok Hb Hf Hty El Ew.
  destruct Hb as [H0|(marks & im & Ef & _ & Ety & Et & Epl)]; [lia|].
  destruct (nth_error_base_init x marks im Hok Ef) as [Hlen Hn].
  destruct (straggler_index_spec f s (x_hist x) lastm El Ew) as [Habove _]. cbn zeta in Habove.
  destruct (Nat.le_gt_cases (fst (base x)) (straggler_index f s (x_hist x))) as [H|H]; [exact H|exfalso].
  assert (Hin : In (EProc im) (skipn (straggler_index f s (x_hist x)) (x_hist x))).
  { apply (nth_error_In _ (length marks - straggler_index f s (x_hist x))). rewrite nth_error_skipn_add.
    replace (straggler_index f s (x_hist x) + (length marks - straggler_index f s (x_hist x))) with (length marks) by lia. exact Hn. }
  specialize (Habove im Hin). rewrite (not_before_init f s im Hf Hty Ety Et Epl) in Habove. discriminate.
Qed.

Lemma anti_ge_base a x k : lp_ok p x -> lp_base x -> tyok a -> anti_index a (x_hist x) = Some k -> fst (base x) <= k.
Proof.
  intros Hok Hb Hty Ea.
  destruct (anti_index_spec ck a _ _ Ea) as (j & Hkj & Hnj & Hsent).
  pose proof (base_proc_index x j a Hok Hb Hnj) as Hj.
  destruct Hb as [H0|(marks & im & Ef & _ & Ety & _)]; [lia|].
  destruct (nth_error_base_init x marks im Hok Ef) as [Hlen Hn].
  destruct (Nat.eq_dec j (length marks)) as [->|Hne].
  - rewrite Hn in Hnj. injection Hnj as <-. unfold tyok in Hty. rewrite Ety in Hty. exfalso. exact (N.lt_irrefl _ Hty).
  - destruct (Nat.le_gt_cases (fst (base x)) k) as [H|H]; [exact H|exfalso].
    destruct (Hsent (length marks) ltac:(lia)) as (m' & Hm'). rewrite Hn in Hm'. discriminate.
Qed.

Lemma find_proc_total a rh : forall i, length rh = i -> In (EProc a) rh -> find_proc a rh i <> None.
Proof.
  induction rh as [|e r IH]; intros i Hl Hin; [destruct Hin|]. cbn in Hl. subst i. cbn [find_proc].
  destruct e as [m|m].
  - apply (IH (length r) eq_refl). destruct Hin as [H|H]; [discriminate|exact H].
  - destruct (wmsg_eqb m a) eqn:E; [discriminate|]. apply (IH (length r) eq_refl). destruct Hin as [H|H]; [|exact H].
    injection H as ->. unfold wmsg_eqb in E. rewrite Pos.eqb_refl in E. destruct (event_eq_dec (wm_ev a) (wm_ev a)); [discriminate|congruence].
Qed.
Lemma anti_index_total a hist : In (EProc a) hist -> anti_index a hist <> None.
Proof.
  intros Hin. unfold anti_index. pose proof (find_proc_total a (rev hist) (length hist) (rev_length _) ltac:(apply -> in_rev; exact Hin)) as H.
  destruct (find_proc a (rev hist) (length hist)) as [[j below]|]; [discriminate|congruence].
Qed.

Lemma do_rollback_shape w l past ref snap older :
  drop_newer (x_logs (get_lp w l)) past = (ref, snap) :: older ->
  k_lps (do_rollback p w l past) =
  set_nth (k_lps w) l (mkLpx (firstn past (x_hist (get_lp w l))) (x_bound (get_lp w l))
                             (replay p snap (sub (firstn past (x_hist (get_lp w l))) ref past)) ((ref, snap) :: older)
                             (x_rem (get_lp w l)) (x_epoch (get_lp w l))).
Proof. intros Hd. unfold do_rollback. rewrite Hd. cbn [put_lp set_lps k_lps]. rewrite undo_all_lps. reflexivity. Qed.

Lemma do_rollback_extra w l past :
  all_ok2 p w -> l < length (k_lps w) -> extra w -> fst (base (get_lp w l)) <= past ->
  extra (do_rollback p w l past) /\ length (k_lps (do_rollback p w l past)) = length (k_lps w).
Proof.
  intros Hok Hl [Hp Hx] Hr0.
  destruct (get_ok2 p w l Hok Hl) as [Hlok _].
  pose proof (drop_newer_some (get_lp w l) past Hlok Hr0) as Hne.
  destruct (drop_newer (x_logs (get_lp w l)) past) as [|[ref snap] older] eqn:Hd; [congruence|].
  pose proof (do_rollback_shape w l past ref snap older Hd) as Es.
  assert (Elen : length (k_lps (do_rollback p w l past)) = length (k_lps w)) by (rewrite Es; apply set_nth_length).
  split; [|exact Elen]. split.
  - intros m Hm. rewrite Elen.
    assert (Hin : In m (pend w) \/ In m (map entry_msg (skipn past (x_hist (get_lp w l))))).
    { unfold do_rollback in Hm. rewrite Hd in Hm. change (pend (put_lp ?a _ _)) with (pend a) in Hm.
      destruct (undo_all_frame (skipn past (x_hist (get_lp w l))) w) as (_ & _ & _ & _ & _ & B6). apply B6. exact Hm. }
    destruct Hin as [Hin|Hin]; [apply Hp; exact Hin|].
    apply in_map_iff in Hin. destruct Hin as (e & <- & He).
    destruct (Hx l Hl) as (Hb & Ht & Hdst & Hmk).
    destruct e as [y|y]; cbn [entry_msg].
    + apply Hmk. apply (in_skipn _ _ _ He).
    + split; [apply Ht|rewrite (Hdst y (in_skipn _ _ _ He)); exact Hl].
      rewrite <- (firstn_skipn (past - fst (base (get_lp w l))) (skipn (fst (base (get_lp w l))) (x_hist (get_lp w l)))).
      apply in_or_app. right. rewrite skipn_skipn. replace (past - fst (base (get_lp w l)) + fst (base (get_lp w l))) with past by lia. exact He.
  - intros i Hi. rewrite Elen in *. unfold get_lp at 1. rewrite Es.
    destruct (Nat.eq_dec i l) as [->|Hne'].
    + rewrite nth_set_nth by exact Hl. apply rollback_lp_extra; [exact Hlok|apply Hx; exact Hl|exact Hr0|exact Hd].
    + rewrite (nth_set_nth_other ck) by exact Hne'. apply Hx. exact Hi.
Qed.

Lemma forward_shape w l m : exists news,
  map wm_ev news = snd (handle p (wm_ev m) (x_st (get_lp w l))) /\
  (forall y, In y (pend (forward p ck w l m)) <-> In y news \/ In y (pend w)) /\
  exists b st logs rem,
    (logs = x_logs (get_lp w l) \/ exists g, logs = g :: x_logs (get_lp w l)) /\
    k_lps (forward p ck w l m) =
    set_nth (k_lps w) l (mkLpx (x_hist (get_lp w l) ++ map ESent news ++ [EProc m]) b st logs rem (x_epoch (get_lp w l))).
Proof.
  unfold forward. destruct (handle p (wm_ev m) (x_st (get_lp w l))) as [st' outs].
  pose proof (send_all_lps outs w []) as Elps.
  assert (Hs : exists news, snd (send_all w outs []) = map ESent news /\ map wm_ev news = outs /\
                            forall y, In y (pend (fst (send_all w outs []))) <-> In y news \/ In y (pend w)).
  { clear Elps. change (@nil entry) with (rev (@nil entry)) at 2.
    assert (G : forall outs w acc, exists news, snd (send_all w outs acc) = rev acc ++ map ESent news /\ map wm_ev news = outs /\
                  forall y, In y (pend (fst (send_all w outs acc))) <-> In y news \/ In y (pend w)).
    { clear. induction outs as [|e r IH]; intros w acc; cbn [send_all].
      - exists []. cbn [fst snd map]. rewrite app_nil_r. split; [reflexivity|]. split; [reflexivity|]. intros y. cbn [In]. tauto.
      - match goal with |- context [send_all ?w0 r ?a] => destruct (IH w0 a) as (news & E1 & E2 & E3) end.
        exists (mkWm (k_next w) e :: news). split; [rewrite E1; cbn [rev map]; rewrite <- app_assoc; reflexivity|].
        split; [cbn [map wm_ev]; rewrite E2; reflexivity|]. intros y. rewrite E3.
        match goal with |- In y news \/ In y (pend ?w0) <-> _ => change (pend w0) with (mkWm (k_next w) e :: pend w) end.
        cbn [In]. tauto. }
    destruct (G outs w []) as (news & E1 & E2 & E3). exists news. split; [exact E1|]. split; [exact E2|exact E3]. }
  destruct Hs as (news & E1 & E2 & E3).
  destruct (send_all w outs []) as [w1 marks]. cbn [fst snd] in *. subst marks.
  exists news. split; [exact E2|]. split; [intros y; change (pend (put_lp w1 _ _)) with (pend w1); apply E3|].
  eexists _, _, _, _. split; [|cbn [put_lp set_lps k_lps]; rewrite Elps; reflexivity].
  destruct (Nat.leb ck (S (x_rem (get_lp w l)))); [right; eexists; reflexivity|left; reflexivity].
Qed.

Lemma last_cons_ne {A} (g : A) l d : l <> [] -> last (g :: l) d = last l d.
Proof. intros H. destruct l; [congruence|reflexivity]. Qed.

Lemma forward_extra w l m : all_ok2 p w -> l < length (k_lps w) -> length (k_lps w) = N.to_nat (p_lps p) ->
  extra w -> tyok m -> N.to_nat (e_dest (wm_ev m)) = l ->
  extra (forward p ck w l m) /\ length (k_lps (forward p ck w l m)) = length (k_lps w).
Proof.
  intros Hok Hl Hn [Hp Hx] Hty Hdm.
  destruct (forward_shape w l m) as (news & E2 & E3 & b & st & logs & rem & Hlogs & Es).
  assert (Elen : length (k_lps (forward p ck w l m)) = length (k_lps w)) by (rewrite Es; apply set_nth_length).
  assert (Hnews : forall y, In y news -> tyok y /\ N.to_nat (e_dest (wm_ev y)) < length (k_lps w)).
  { intros y Hy. assert (Ho : In (wm_ev y) (snd (handle p (wm_ev m) (x_st (get_lp w l))))) by (rewrite <- E2; apply in_map; exact Hy).
    split; [exact (H_type _ _ _ Ho)|]. pose proof (H_dest _ _ _ Ho ltac:(lia)). lia. }
  split; [|exact Elen]. split.
  - intros y Hy. rewrite Elen. apply E3 in Hy. destruct Hy as [Hy|Hy]; [apply Hnews; exact Hy|apply Hp; exact Hy].
  - intros i Hi. rewrite Elen in *. unfold get_lp at 1. rewrite Es.
    destruct (Nat.eq_dec i l) as [->|Hne'].
    2:{ rewrite (nth_set_nth_other ck) by exact Hne'. apply Hx. exact Hi. }
    rewrite nth_set_nth by exact Hl.
    destruct (Hx l Hl) as (Hb & Ht & Hdst & Hmk). set (x := get_lp w l) in *.
    destruct (get_ok2 p w l Hok Hl) as [Hlok _]. fold x in Hlok.
    pose proof (base_le_len x Hlok) as Hble.
    destruct Hlok as (newer & r0 & s0 & El & _).
    assert (Eb : base (mkLpx (x_hist x ++ map ESent news ++ [EProc m]) b st logs rem (x_epoch x)) = base x).
    { unfold base. cbn [x_logs]. destruct Hlogs as [->|[g ->]]; [reflexivity|]. apply last_cons_ne. rewrite El. destruct newer; discriminate. }
    unfold lp_extra, lp_base. rewrite !Eb. cbn [x_hist]. split; [|split; [|split]].
    + destruct Hb as [H0|(marks & im & Ef & Hrest)]; [left; exact H0|right]. exists marks, im. split; [|exact Hrest].
      rewrite firstn_app. replace (fst (base x) - length (x_hist x)) with 0 by lia. rewrite firstn_O, app_nil_r. exact Ef.
    + intros y Hy. rewrite skipn_app_le in Hy by exact Hble. apply in_app_or in Hy. destruct Hy as [Hy|Hy]; [apply Ht; exact Hy|].
      apply in_app_or in Hy. destruct Hy as [Hy|[Hy|[]]]; [apply in_map_iff in Hy; destruct Hy as (z & Hz & _); discriminate|].
      injection Hy as <-. exact Hty.
    + intros y Hy. apply in_app_or in Hy. destruct Hy as [Hy|Hy]; [apply Hdst; exact Hy|].
      apply in_app_or in Hy. destruct Hy as [Hy|[Hy|[]]]; [apply in_map_iff in Hy; destruct Hy as (z & Hz & _); discriminate|].
      injection Hy as <-. exact Hdm.
    + intros y Hy. apply in_app_or in Hy. destruct Hy as [Hy|Hy]; [apply Hmk; exact Hy|].
      apply in_app_or in Hy. destruct Hy as [Hy|[Hy|[]]]; [|discriminate].
      apply in_map_iff in Hy. destruct Hy as (z & Hz & Hin). injection Hz as <-. apply Hnews. exact Hin.
Qed.

Lemma fix_bound_hist x : x_hist (fix_bound x) = x_hist x.
Proof. unfold fix_bound. destruct (x_hist x) eqn:E; [cbn; reflexivity|exact E]. Qed.
Lemma fix_bound_logs x : x_logs (fix_bound x) = x_logs x.
Proof. unfold fix_bound. destruct (x_hist x); reflexivity. Qed.
Lemma fix_bound_extra n l x : lp_extra n l x -> lp_extra n l (fix_bound x).
Proof. unfold lp_extra, lp_base, base. rewrite fix_bound_hist, fix_bound_logs. tauto. Qed.

Lemma extract_frame w : let w1 := snd (wq_extract w) in
  k_flags w1 = k_flags w /\ k_next w1 = k_next w /\ k_gvt w1 = k_gvt w /\ k_lps w1 = k_lps w /\ k_err w1 = k_err w /\ k_epoch w1 = k_epoch w.
Proof. unfold wq_extract. destruct (heap_extract _ _ _ _) as [[m h']|]; cbn; repeat split; reflexivity. Qed.

Lemma put_same_hist w l x : l < length (k_lps w) -> x_hist x = x_hist (get_lp w l) ->
  allprocs (k_lps (put_lp w l x)) = allprocs (k_lps w) /\ allmarks (k_lps (put_lp w l x)) = allmarks (k_lps w).
Proof.
  intros Hl E. cbn [put_lp set_lps k_lps]. unfold allprocs, allmarks. split; apply flat_map_set_same; try exact Hl; unfold get_lp in E; rewrite E; reflexivity.
Qed.

Lemma lazy_fossil w1 l m :
  all_ok2 p w1 -> good w1 -> k_err w1 = false -> l < length (k_lps w1) ->
  Loc (k_gvt w1) (k_flags w1) (m :: pend w1) (allprocs (k_lps w1)) (allmarks (k_lps w1)) (k_next w1) ->
  ge (k_gvt w1) m ->
  (forall i, i < length (k_lps w1) -> lp_extra (length (k_lps w1)) i (get_lp w1 i)) ->
  let w2 := if Nat.eqb (x_epoch (get_lp w1 l)) (k_epoch w1) then w1 else let w' := fossil_lp w1 l in put_lp w' l (fix_bound (get_lp w' l)) in
  all_ok2 p w2 /\ good w2 /\ k_err w2 = false /\ length (k_lps w2) = length (k_lps w1) /\ pend w2 = pend w1 /\ k_gvt w2 = k_gvt w1 /\
  Loc (k_gvt w2) (k_flags w2) (m :: pend w2) (allprocs (k_lps w2)) (allmarks (k_lps w2)) (k_next w2) /\
  (forall i, i < length (k_lps w2) -> lp_extra (length (k_lps w2)) i (get_lp w2 i)).
Proof.
  intros Hok Hg He Hl HL Hgm Hx. cbn zeta.
  destruct (Nat.eqb (x_epoch (get_lp w1 l)) (k_epoch w1)).
  { split; [exact Hok|split; [exact Hg|split; [exact He|split; [reflexivity|split; [reflexivity|split; [reflexivity|split; [exact HL|exact Hx]]]]]]]. }
  destruct Hg as [S2 S3 S4].
  destruct (fossil_once w1 l (m :: pend w1) [] Hok S4 Hl (proj1 (Hx l Hl)) HL) as (F1 & F2 & F3 & F4 & F5 & F6 & F7 & F8 & F9 & F10 & F11).
  { intros y [<-|Hy]; [exact Hgm|apply S2; exact Hy]. }
  set (w' := fossil_lp w1 l) in *.
  assert (Hl' : l < length (k_lps w')) by (rewrite F6; exact Hl).
  assert (Ok' : all_ok2 p w') by (apply fossil_ok2; exact Hok).
  assert (G' : good w').
  { destruct (fossil_good w1 l (Build_good _ S2 S3 S4)) as [[Gf _]|Et]; [exact Gf|]. fold w' in Et. rewrite F1, He in Et. discriminate. }
  destruct (put_same_hist w' l (fix_bound (get_lp w' l)) Hl' (fix_bound_hist _)) as [Ep Em].
  split; [apply put_ok2; [exact Ok'|intros _; apply fix_bound_ok2; apply get_ok2; assumption]|].
  split; [apply put_lp_good; [exact G'|intros _; apply fix_bound_time; apply get_time; assumption]|].
  split; [cbn [put_lp set_lps k_err]; rewrite F1; exact He|].
  split; [cbn [put_lp set_lps k_lps]; rewrite set_nth_length; exact F6|].
  split; [change (pend (put_lp w' _ _)) with (pend w'); exact F5|].
  split; [exact F2|].
  split.
  - rewrite Ep, Em. change (pend (put_lp w' _ _)) with (pend w'). cbn [put_lp set_lps k_gvt k_flags k_next]. rewrite F5. exact F8.
  - cbn [put_lp set_lps k_lps]. rewrite set_nth_length, F6. intros i Hi. unfold get_lp at 1. cbn [put_lp set_lps k_lps].
    destruct (Nat.eq_dec i l) as [->|Hne].
    + rewrite nth_set_nth by exact Hl'. apply fix_bound_extra.
      destruct (Hx l Hl) as (Hb & Ht & Hdst & Hmk).
      destruct F11 as [E|(r & Eh & Hr & Hb0)]; [rewrite E; apply Hx; exact Hl|].
      unfold lp_extra. rewrite Hb0. cbn [skipn]. rewrite Eh. split; [exact F9|]. split; [|split].
      * intros y Hy. apply Ht. rewrite <- (firstn_skipn (r - fst (base (get_lp w1 l))) (skipn (fst (base (get_lp w1 l))) (x_hist (get_lp w1 l)))).
        apply in_or_app. right. rewrite skipn_skipn. replace (r - fst (base (get_lp w1 l)) + fst (base (get_lp w1 l))) with r by lia. exact Hy.
      * intros y Hy. apply Hdst. apply (in_skipn _ _ _ Hy).
      * intros y Hy. apply Hmk. apply (in_skipn _ _ _ Hy).
    + rewrite (nth_set_nth_other ck) by exact Hne. fold (get_lp w' i). rewrite (F10 i Hne). apply Hx. exact Hi.
Qed.
