(* Refinement of the worker model (TW/Worker.v: process.c op by op) to the abstract Time Warp machine (Abs/Abs.v), for scripts
   without GVT announcements (histories complete: no fossil collection): every state the worker reaches by deliveries, late
   hand-backs and cancellations in any order is related to a reachable state of the abstract machine, so the theorem of the
   abstract theory applies to process.c's histories: below every valid bound they are the sequential execution.
   Part 1: contents, grouping of the flat history, the order. *)
From Coq Require Import List ZArith NArith PArith Bool Arith Lia Sorted Permutation FMapPositive.
From RS Require Import Base.Lex Order.MsgOrderDefs Order.MsgOrderProofs Heap.HeapList TW.App TW.Seq TW.Worker TW.WorkerProofs TW.WorkerSafety
  TW.WorkerOnce TW.WorkerOnceProofs TW.WorkerOnceApp TW.AppAbs TW.AppAbs2.
From RS.Abs Require Peel Abs Bridge.
Import ListNotations.

Definition amsg (m : wmsg) : Abs.msg cont :=
  Abs.Build_msg cont (Pos.to_nat (wm_id m)) (N.to_nat (e_dest (wm_ev m))) (cont_of (wm_ev m)).

Lemma amsg_inj a b : amsg a = amsg b -> a = b.
Proof.
  destruct a as [ia [da ta ya pa]], b as [ib [db tb yb pb]]. unfold amsg, cont_of. cbn. intros H. injection H as H1 H2 H3 H4 H5.
  apply Pos2Nat.inj in H1. apply N2Nat.inj in H2. subst. reflexivity.
Qed.
Lemma amsg_id_inj a b : Abs.mid cont (amsg a) = Abs.mid cont (amsg b) -> wm_id a = wm_id b.
Proof. cbn. apply Pos2Nat.inj. Qed.

(* ---------- groups: the markers of the messages an event sent, then the event ---------- *)
Notation group := (list wmsg * wmsg)%type (only parsing).
Definition flat1 (g : group) : list entry := map ESent (fst g) ++ [EProc (snd g)].
Definition flat (gs : list group) : list entry := flat_map flat1 gs.
Definition ent (g : group) : Abs.entry cont := Abs.Build_entry cont (amsg (snd g)) (map amsg (fst g)).

Lemma flat_app a b : flat (a ++ b) = flat a ++ flat b.
Proof. apply flat_map_app. Qed.
Lemma procs_flat gs : procs_of (flat gs) = map snd gs.
Proof.
  induction gs as [|g gs IH]; [reflexivity|]. cbn [flat flat_map map]. rewrite procs_app. fold (flat gs). rewrite IH.
  unfold flat1. rewrite procs_app, procs_map_sent. reflexivity.
Qed.
Lemma marks_flat gs : marks_of (flat gs) = flat_map fst gs.
Proof.
  induction gs as [|g gs IH]; [reflexivity|]. cbn [flat flat_map]. rewrite marks_app. fold (flat gs). rewrite IH.
  unfold flat1. rewrite marks_app, marks_map_sent. cbn. rewrite app_nil_r. reflexivity.
Qed.

Lemma flat_cons ms m gs : flat ((ms, m) :: gs) = map ESent ms ++ EProc m :: flat gs.
Proof. unfold flat. cbn [flat_map]. unfold flat1 at 1. cbn [fst snd]. rewrite <- app_assoc. reflexivity. Qed.

(* a well-formed history (hist_ok) is a sequence of groups *)
Lemma hist_ok_groups p es : forall st pend, hist_ok p st pend es ->
  es = [] \/ exists ms m gs, es = map ESent ms ++ EProc m :: flat gs.
Proof.
  induction es as [|e es IH]; intros st pend H; [left; reflexivity|right].
  destruct e as [m|m]; cbn [hist_ok] in H.
  - destruct (IH _ _ H) as [->|(ms & m' & gs & ->)].
    + cbn in H. destruct pend; discriminate.
    + exists (m :: ms), m', gs. reflexivity.
  - destruct H as [_ H]. destruct (IH _ _ H) as [->|(ms & m' & gs & ->)].
    + exists [], m, []. reflexivity.
    + exists [], m, ((ms, m') :: gs). rewrite flat_cons. reflexivity.
Qed.
Lemma hist_ok_flat p es st : hist_ok p st [] es -> exists gs, es = flat gs.
Proof.
  intros H. destruct (hist_ok_groups p es st [] H) as [->|(ms & m & gs & ->)]; [exists []; reflexivity|].
  exists ((ms, m) :: gs). rewrite flat_cons. reflexivity.
Qed.

(* cutting at a group boundary *)
Lemma flat_cut gs : forall k, bnd (flat gs) k -> k <= length (flat gs) ->
  exists gk gu, gs = gk ++ gu /\ firstn k (flat gs) = flat gk /\ skipn k (flat gs) = flat gu.
Proof.
  induction gs as [|g gs IH]; intros k Hb Hk.
  - cbn in Hk. assert (k = 0) by lia. subst. exists [], []. repeat split.
  - destruct (Nat.eq_dec k 0) as [->|Hk0]; [exists [], (g :: gs); repeat split|].
    cbn [flat flat_map] in *. fold (flat gs) in *.
    assert (Hlen : length (flat1 g) = S (length (fst g))) by (unfold flat1; rewrite app_length, map_length; cbn; lia).
    destruct (Nat.lt_ge_cases k (length (flat1 g))) as [Hlt|Hge].
    + (* inside the first group: impossible for a boundary *)
      exfalso. destruct Hb as [->|(m & Hn)]; [lia|]. rewrite nth_error_app1 in Hn by lia.
      unfold flat1 in Hn. rewrite nth_error_app1 in Hn by (rewrite map_length; lia).
      apply nth_error_In in Hn. apply in_map_iff in Hn. destruct Hn as (z & Hz & _). discriminate.
    + destruct (IH (k - length (flat1 g))) as (gk & gu & E & E1 & E2).
      * destruct (Nat.eq_dec k (length (flat1 g))) as [->|Hne]; [left; lia|right].
        destruct Hb as [->|(m & Hn)]; [lia|]. exists m. rewrite nth_error_app2 in Hn by lia.
        replace (pred (k - length (flat1 g))) with (pred k - length (flat1 g)) by lia. exact Hn.
      * rewrite app_length in Hk. lia.
      * exists (g :: gk), gu. split; [rewrite E; reflexivity|]. cbn [flat flat_map]. fold (flat gk).
        rewrite firstn_app, skipn_app. rewrite firstn_all2 by lia. rewrite skipn_all2 by lia. cbn [app].
        rewrite E1, E2. split; reflexivity.
Qed.

(* the split of a list into "kept prefix whose last element fails p" and "suffix that satisfies p" is unique *)
Lemma keep_of_unique {A} (p : A -> bool) (k u : list A) :
  (forall x, In x u -> p x = true) -> (k = [] \/ exists k' x, k = k' ++ [x] /\ p x = false) ->
  Abs.keep_of p (k ++ u) = k /\ Abs.undo_of p (k ++ u) = u.
Proof.
  intros Hu Hk. unfold Abs.keep_of, Abs.undo_of. rewrite rev_app_distr.
  assert (T : forall l r, (forall x, In x l -> p x = true) -> (r = [] \/ exists x r', r = x :: r' /\ p x = false) ->
              Abs.take_while p (l ++ r) = l /\ Abs.drop_while p (l ++ r) = r).
  { induction l as [|y l IH]; intros r Hl Hr; cbn.
    - destruct Hr as [->|(x & r' & -> & Hx)]; cbn; [split; reflexivity|rewrite Hx; split; reflexivity].
    - rewrite (Hl y (or_introl eq_refl)). destruct (IH r (fun x Hx => Hl x (or_intror Hx)) Hr) as [E1 E2]. rewrite E1, E2. split; reflexivity. }
  destruct (T (rev u) (rev k)) as [E1 E2].
  - intros x Hx. apply Hu. apply in_rev. exact Hx.
  - destruct Hk as [->|(k' & x & -> & Hx)]; [left; reflexivity|right]. exists x, (rev k'). rewrite rev_app_distr. split; [reflexivity|exact Hx].
  - rewrite E1, E2, !rev_involutive. split; reflexivity.
Qed.

(* ---------- the order ---------- *)
Lemma rt_wf f m : wf_msg (rt_msg f m).
Proof. unfold wf_msg, rt_msg. cbn. rewrite Nat2Z.id, map_length. lia. Qed.

Lemma content_rt f m : content (rt_msg f m) =
  [Z.of_N (e_t (wm_ev m)); (- Z.land (Z.of_N (flag_of f (wm_id m))) 1)%Z; (- Z.of_N (e_type (wm_ev m)))%Z; Z.of_nat (length (e_pl (wm_ev m)))]
  ++ map (fun b => (- Z.of_N b)%Z) (e_pl (wm_ev m)).
Proof.
  unfold content, rt_msg, payload, anti_bit. cbn [m_t m_flags m_type m_plsize m_pl].
  rewrite Nat2Z.id, firstn_all2 by (rewrite map_length; lia). rewrite map_map. reflexivity.
Qed.

Lemma wbefore_valid f a b : Z.land (Z.of_N (fl f a)) 1 = 0%Z -> Z.land (Z.of_N (fl f b)) 1 = 0%Z ->
  wbefore f a b = cltb (cont_of (wm_ev a)) (cont_of (wm_ev b)).
Proof.
  intros Ha Hb. unfold wbefore. rewrite before_is_lex by apply rt_wf. rewrite !content_rt. unfold fl in *. rewrite Ha, Hb.
  unfold cltb, key, cont_of, c_t, c_type, c_pl. cbn [fst snd]. reflexivity.
Qed.
Lemma wbefore_doomed f a b : Z.land (Z.of_N (fl f a)) 1 = 0%Z -> Z.land (Z.of_N (fl f b)) 1 = 1%Z ->
  wbefore f a b = tltb (cont_of (wm_ev a)) (cont_of (wm_ev b)).
Proof.
  intros Ha Hb. unfold wbefore. rewrite before_is_lex by apply rt_wf. rewrite !content_rt. unfold fl in *. rewrite Ha, Hb.
  unfold tltb, cont_of, c_t. cbn [fst snd app lexltb].
  destruct (Z.ltb_spec (Z.of_N (e_t (wm_ev a))) (Z.of_N (e_t (wm_ev b)))) as [H|H].
  - symmetry. apply N.ltb_lt. lia.
  - destruct (Z.eqb_spec (Z.of_N (e_t (wm_ev a))) (Z.of_N (e_t (wm_ev b)))) as [E|E]; cbn.
    + symmetry. apply N.ltb_ge. lia.
    + symmetry. apply N.ltb_ge. lia.
Qed.

(* ---------- Part 2: what the abstract pool and the abstract set of cancelled identities are, on the worker's side ---------- *)
Definition Live (f : fmap) (pd : list wmsg) (y : wmsg) : Prop := In y pd /\ (fl f y = 0%N \/ fl f y = 1%N).
Definition Dm (f : fmap) (pd pr : list wmsg) (i : positive) : Prop :=
  exists y, wm_id y = i /\ ((In y pd /\ fl f y = 1%N) \/ (In y pr /\ (fl f y = 3%N \/ fl f y = 5%N))).
Definition Mk0 (f : fmap) (pd mk : list wmsg) : Prop := forall o, In o mk -> fl f o = 0%N -> In o pd.
Definition No5 (f : fmap) (l : list wmsg) : Prop := forall y, In y l -> fl f y <> 5%N.

Lemma fl_set f o v y : fl (flag_set f (wm_id o) v) y = if Pos.eqb (wm_id y) (wm_id o) then v else fl f y.
Proof.
  destruct (Pos.eqb_spec (wm_id y) (wm_id o)) as [E|E].
  - unfold fl. rewrite E. unfold flag_of, flag_set. rewrite PositiveMap.gss. reflexivity.
  - apply fl_set_other. exact E.
Qed.

Section Sets.
Variables (g : Z) (f : fmap) (pd pr mk : list wmsg) (nx : positive).

(* one marker un-done, message still pending: it stays pending, now cancelled *)
Lemma unmark0_sets o : Loc g f pd pr (o :: mk) nx -> Mk0 f pd (o :: mk) -> fl f o = 0%N ->
  let f' := flag_set f (wm_id o) 1 in
  (forall y, Live f' pd y <-> Live f pd y) /\
  (forall i, Dm f' pd pr i <-> Dm f pd pr i \/ i = wm_id o) /\ Mk0 f' pd mk /\ (forall L, No5 f L -> No5 f' L).
Proof.
  intros L M0 Hf f'. pose proof (l_body _ _ _ _ _ _ L) as Hb.
  assert (Hid : forall y, In y (pd ++ pr ++ o :: mk) -> wm_id y = wm_id o -> y = o).
  { intros y Hy E. apply Hb; [exact Hy|rewrite !in_app_iff; cbn; tauto|exact E]. }
  assert (Hopd : In o pd) by (apply M0; [left; reflexivity|exact Hf]).
  assert (Hnpr : ~ In o pr).
  { intro H. destruct (l_pr _ _ _ _ _ _ L o H) as [[H1 _]|[[H1 _]|[H1 _]]]; rewrite Hf in H1; discriminate. }
  destruct (nodup_cons_id o mk (l_nd_mk _ _ _ _ _ _ L)) as [Hnmk _].
  split; [|split; [|split]].
  - intros y. unfold Live, f'. split; intros [Hy Hfl]; (split; [exact Hy|]); rewrite fl_set in *;
      destruct (Pos.eqb_spec (wm_id y) (wm_id o)) as [E|E]; try exact Hfl.
    + rewrite (Hid y ltac:(rewrite in_app_iff; tauto) E). left. exact Hf.
    + right. reflexivity.
  - intros i. unfold Dm, f'. split.
    + intros (y & Ey & H). rewrite fl_set in H. destruct (Pos.eqb_spec (wm_id y) (wm_id o)) as [E|E].
      * right. rewrite <- Ey. exact E.
      * left. exists y. split; [exact Ey|exact H].
    + intros [(y & Ey & H)| ->].
      * exists y. split; [exact Ey|]. rewrite fl_set. destruct (Pos.eqb_spec (wm_id y) (wm_id o)) as [E|E]; [|exact H].
        exfalso. destruct H as [[Hy Hfl]|[Hy Hfl]].
        -- rewrite (Hid y ltac:(rewrite in_app_iff; tauto) E), Hf in Hfl. discriminate.
        -- rewrite (Hid y ltac:(rewrite !in_app_iff; tauto) E) in Hy. exact (Hnpr Hy).
      * exists o. split; [reflexivity|left]. split; [exact Hopd|]. rewrite fl_set, Pos.eqb_refl. reflexivity.
  - intros y Hy Hfl. unfold f' in Hfl. rewrite fl_set in Hfl. destruct (Pos.eqb_spec (wm_id y) (wm_id o)) as [E|E]; [discriminate|].
    apply M0; [right; exact Hy|exact Hfl].
  - intros L0 N5 y Hy. unfold f'. rewrite fl_set. destruct (Pos.eqb_spec (wm_id y) (wm_id o)) as [E|E]; [discriminate|apply N5; exact Hy].
Qed.

(* one marker un-done, message already processed: it is now cancelled where it is, and its notice is queued (not part of the pool) *)
Lemma unmark2_sets o : Loc g f pd pr (o :: mk) nx -> Mk0 f pd (o :: mk) -> fl f o = 2%N -> (g <= Z.of_N (tm o))%Z ->
  let f' := flag_set f (wm_id o) 3 in
  (forall y, Live f' (o :: pd) y <-> Live f pd y) /\
  (forall i, Dm f' (o :: pd) pr i <-> Dm f pd pr i \/ i = wm_id o) /\ Mk0 f' (o :: pd) mk /\ (forall L, No5 f L -> No5 f' L).
Proof.
  intros L M0 Hf Hgo f'. pose proof (l_body _ _ _ _ _ _ L) as Hb.
  assert (Hid : forall y, In y (pd ++ pr ++ o :: mk) -> wm_id y = wm_id o -> y = o).
  { intros y Hy E. apply Hb; [exact Hy|rewrite !in_app_iff; cbn; tauto|exact E]. }
  assert (Hopr : In o pr).
  { destruct (l_mk _ _ _ _ _ _ L o (or_introl eq_refl)) as [H|[_ [H|H]]]; [rewrite Hf in H; discriminate|exact H|lia]. }
  assert (Hnpd : ~ In o pd).
  { intro H. destruct (l_pd _ _ _ _ _ _ L o H) as [[H1 _]|[[H1|H1] _]]; rewrite Hf in H1; discriminate. }
  split; [|split; [|split]].
  - intros y. unfold Live, f'. split.
    + intros [[<-|Hy] Hfl]; [rewrite fl_set, Pos.eqb_refl in Hfl; destruct Hfl; discriminate|].
      rewrite fl_set in Hfl. destruct (Pos.eqb_spec (wm_id y) (wm_id o)) as [E|E]; [destruct Hfl; discriminate|]. split; assumption.
    + intros [Hy Hfl]. split; [right; exact Hy|]. rewrite fl_set. destruct (Pos.eqb_spec (wm_id y) (wm_id o)) as [E|E]; [|exact Hfl].
      exfalso. apply Hnpd. rewrite <- (Hid y ltac:(rewrite in_app_iff; tauto) E). exact Hy.
  - intros i. unfold Dm, f'. split.
    + intros (y & Ey & H). rewrite fl_set in H. destruct (Pos.eqb_spec (wm_id y) (wm_id o)) as [E|E].
      * right. rewrite <- Ey. exact E.
      * left. exists y. split; [exact Ey|]. destruct H as [[[<-|Hy] Hfl]|H]; [congruence|left; split; assumption|right; exact H].
    + intros [(y & Ey & H)| ->].
      * exists y. split; [exact Ey|]. rewrite fl_set. destruct (Pos.eqb_spec (wm_id y) (wm_id o)) as [E|E].
        -- exfalso. destruct H as [[Hy Hfl]|[Hy Hfl]].
           ++ apply Hnpd. rewrite <- (Hid y ltac:(rewrite in_app_iff; tauto) E). exact Hy.
           ++ rewrite (Hid y ltac:(rewrite !in_app_iff; tauto) E), Hf in Hfl. destruct Hfl; discriminate.
        -- destruct H as [[Hy Hfl]|H]; [left; split; [right; exact Hy|exact Hfl]|right; exact H].
      * exists o. split; [reflexivity|right]. split; [exact Hopr|]. rewrite fl_set, Pos.eqb_refl. left. reflexivity.
  - intros y Hy Hfl. unfold f' in Hfl. rewrite fl_set in Hfl. destruct (Pos.eqb_spec (wm_id y) (wm_id o)) as [E|E]; [discriminate|].
    right. apply M0; [right; exact Hy|exact Hfl].
  - intros L0 N5 y Hy. unfold f'. rewrite fl_set. destruct (Pos.eqb_spec (wm_id y) (wm_id o)) as [E|E]; [discriminate|apply N5; exact Hy].
Qed.

(* one processed message un-done, not cancelled: back into the pool *)
Lemma unproc2_sets y0 : Loc g f pd (y0 :: pr) mk nx -> Mk0 f pd mk -> fl f y0 = 2%N ->
  let f' := flag_set f (wm_id y0) 0 in
  (forall y, Live f' (y0 :: pd) y <-> Live f pd y \/ y = y0) /\
  (forall i, Dm f' (y0 :: pd) pr i <-> Dm f pd (y0 :: pr) i) /\ Mk0 f' (y0 :: pd) mk /\ (forall L, No5 f L -> No5 f' L).
Proof.
  intros L M0 Hf f'. pose proof (l_body _ _ _ _ _ _ L) as Hb.
  assert (Hid : forall y, In y (pd ++ (y0 :: pr) ++ mk) -> wm_id y = wm_id y0 -> y = y0).
  { intros y Hy E. apply Hb; [exact Hy|rewrite !in_app_iff; cbn; tauto|exact E]. }
  destruct (nodup_cons_id y0 pr (l_nd_pr _ _ _ _ _ _ L)) as [Hnpr _].
  assert (Hnpd : ~ In y0 pd).
  { intro H. destruct (l_pd _ _ _ _ _ _ L y0 H) as [[H1 _]|[[H1|H1] _]]; rewrite Hf in H1; discriminate. }
  split; [|split; [|split]].
  - intros y. unfold Live, f'. split.
    + intros [[<-|Hy] Hfl]; [right; reflexivity|]. rewrite fl_set in Hfl. destruct (Pos.eqb_spec (wm_id y) (wm_id y0)) as [E|E].
      * right. apply Hid; [rewrite in_app_iff; tauto|exact E].
      * left. split; assumption.
    + intros [[Hy Hfl]| ->]; [|split; [left; reflexivity|rewrite fl_set, Pos.eqb_refl; left; reflexivity]].
      split; [right; exact Hy|]. rewrite fl_set. destruct (Pos.eqb_spec (wm_id y) (wm_id y0)) as [E|E]; [left; reflexivity|exact Hfl].
  - intros i. unfold Dm, f'. split.
    + intros (y & Ey & H). rewrite fl_set in H. destruct (Pos.eqb_spec (wm_id y) (wm_id y0)) as [E|E].
      * exfalso. destruct H as [[_ H]|[_ [H|H]]]; discriminate.
      * exists y. split; [exact Ey|]. destruct H as [[[<-|Hy] Hfl]|[Hy Hfl]]; [congruence|left; split; assumption|right; split; [right; exact Hy|exact Hfl]].
    + intros (y & Ey & H). exists y. split; [exact Ey|]. rewrite fl_set. destruct (Pos.eqb_spec (wm_id y) (wm_id y0)) as [E|E].
      * exfalso. destruct H as [[Hy Hfl]|[Hy Hfl]].
        -- apply Hnpd. rewrite <- (Hid y ltac:(rewrite in_app_iff; tauto) E). exact Hy.
        -- rewrite (Hid y ltac:(rewrite !in_app_iff; cbn; tauto) E), Hf in Hfl. destruct Hfl; discriminate.
      * destruct H as [[Hy Hfl]|[[<-|Hy] Hfl]]; [left; split; [right; exact Hy|exact Hfl]|congruence|right; split; assumption].
  - intros y Hy Hfl. unfold f' in Hfl. rewrite fl_set in Hfl. destruct (Pos.eqb_spec (wm_id y) (wm_id y0)) as [E|E].
    + left. symmetry. apply Hid; [rewrite !in_app_iff; tauto|exact E].
    + right. apply M0; assumption.
  - intros L0 N5 y Hy. unfold f'. rewrite fl_set. destruct (Pos.eqb_spec (wm_id y) (wm_id y0)) as [E|E]; [discriminate|apply N5; exact Hy].
Qed.

(* one processed message un-done that was cancelled meanwhile: its queued notice becomes the pool's (cancelled) copy *)
Lemma unproc3_sets y0 : Loc g f pd (y0 :: pr) mk nx -> Mk0 f pd mk -> fl f y0 = 3%N ->
  let f' := flag_set f (wm_id y0) 1 in
  (forall y, Live f' pd y <-> Live f pd y \/ y = y0) /\
  (forall i, Dm f' pd pr i <-> Dm f pd (y0 :: pr) i) /\ Mk0 f' pd mk /\ (forall L, No5 f L -> No5 f' L).
Proof.
  intros L M0 Hf f'. pose proof (l_body _ _ _ _ _ _ L) as Hb.
  assert (Hid : forall y, In y (pd ++ (y0 :: pr) ++ mk) -> wm_id y = wm_id y0 -> y = y0).
  { intros y Hy E. apply Hb; [exact Hy|rewrite !in_app_iff; cbn; tauto|exact E]. }
  destruct (nodup_cons_id y0 pr (l_nd_pr _ _ _ _ _ _ L)) as [Hnpr _].
  assert (Hpd : In y0 pd).
  { destruct (l_pr _ _ _ _ _ _ L y0 (or_introl eq_refl)) as [[_ H]|[[H _]|[H _]]]; [exact H|rewrite Hf in H; discriminate|rewrite Hf in H; discriminate]. }
  split; [|split; [|split]].
  - intros y. unfold Live, f'. split.
    + intros [Hy Hfl]. rewrite fl_set in Hfl. destruct (Pos.eqb_spec (wm_id y) (wm_id y0)) as [E|E].
      * right. apply Hid; [rewrite in_app_iff; tauto|exact E].
      * left. split; assumption.
    + intros [[Hy Hfl]| ->]; [|split; [exact Hpd|rewrite fl_set, Pos.eqb_refl; right; reflexivity]].
      split; [exact Hy|]. rewrite fl_set. destruct (Pos.eqb_spec (wm_id y) (wm_id y0)) as [E|E]; [right; reflexivity|exact Hfl].
  - intros i. unfold Dm, f'. split.
    + intros (y & Ey & H). rewrite fl_set in H. destruct (Pos.eqb_spec (wm_id y) (wm_id y0)) as [E|E].
      * exists y0. split; [rewrite <- Ey; symmetry; exact E|right]. split; [left; reflexivity|left; exact Hf].
      * exists y. split; [exact Ey|]. destruct H as [H|[Hy Hfl]]; [left; exact H|right; split; [right; exact Hy|exact Hfl]].
    + intros (y & Ey & H). rewrite <- Ey. destruct (Pos.eq_dec (wm_id y) (wm_id y0)) as [E|E].
      * exists y0. split; [symmetry; exact E|left]. split; [exact Hpd|]. rewrite fl_set, Pos.eqb_refl. reflexivity.
      * exists y. split; [reflexivity|]. rewrite fl_set. destruct (Pos.eqb_spec (wm_id y) (wm_id y0)) as [E'|_]; [contradiction|].
        destruct H as [H|[[<-|Hy] Hfl]]; [left; exact H|congruence|right; split; assumption].
  - intros y Hy Hfl. unfold f' in Hfl. rewrite fl_set in Hfl. destruct (Pos.eqb_spec (wm_id y) (wm_id y0)) as [E|E]; [discriminate|]. apply M0; assumption.
  - intros L0 N5 y Hy. unfold f'. rewrite fl_set. destruct (Pos.eqb_spec (wm_id y) (wm_id y0)) as [E|E]; [discriminate|apply N5; exact Hy].
Qed.

(* the annihilation of the cancelled processed message whose notice is in hand *)
Lemma unproc5_sets y0 : Loc g f pd (y0 :: pr) mk nx -> Mk0 f pd mk -> fl f y0 = 5%N ->
  let f' := flag_set f (wm_id y0) 3 in
  (forall y, Live f' pd y <-> Live f pd y) /\
  (forall i, Dm f' pd pr i <-> Dm f pd (y0 :: pr) i /\ i <> wm_id y0) /\ Mk0 f' pd mk /\ (forall L, No5 f L -> No5 f' L).
Proof.
  intros L M0 Hf f'. pose proof (l_body _ _ _ _ _ _ L) as Hb.
  assert (Hid : forall y, In y (pd ++ (y0 :: pr) ++ mk) -> wm_id y = wm_id y0 -> y = y0).
  { intros y Hy E. apply Hb; [exact Hy|rewrite !in_app_iff; cbn; tauto|exact E]. }
  destruct (nodup_cons_id y0 pr (l_nd_pr _ _ _ _ _ _ L)) as [Hnpr _].
  assert (Hnpd : ~ In y0 pd).
  { intro H. destruct (l_pd _ _ _ _ _ _ L y0 H) as [[H1 _]|[[H1|H1] _]]; rewrite Hf in H1; discriminate. }
  assert (Hother : forall y, In y pd \/ In y pr -> wm_id y <> wm_id y0).
  { intros y Hy E. assert (y = y0) by (apply Hid; [rewrite !in_app_iff; cbn; tauto|exact E]). subst. tauto. }
  split; [|split; [|split]].
  - intros y. unfold Live, f'. split; intros [Hy Hfl]; (split; [exact Hy|]); rewrite fl_set in *;
      destruct (Pos.eqb_spec (wm_id y) (wm_id y0)) as [E|E]; try exact Hfl; exfalso; apply (Hother y (or_introl Hy) E).
  - intros i. unfold Dm, f'. split.
    + intros (y & Ey & H). assert (Hne : wm_id y <> wm_id y0) by (apply Hother; destruct H as [[H _]|[H _]]; tauto).
      rewrite fl_set in H. destruct (Pos.eqb_spec (wm_id y) (wm_id y0)) as [E|_]; [contradiction|]. split; [|rewrite <- Ey; exact Hne].
      exists y. split; [exact Ey|]. destruct H as [H|[Hy Hfl]]; [left; exact H|right; split; [right; exact Hy|exact Hfl]].
    + intros [(y & Ey & H) Hne]. exists y. split; [exact Ey|]. rewrite fl_set. destruct (Pos.eqb_spec (wm_id y) (wm_id y0)) as [E|_]; [congruence|].
      destruct H as [H|[[<-|Hy] Hfl]]; [left; exact H|congruence|right; split; assumption].
  - intros y Hy Hfl. unfold f' in Hfl. rewrite fl_set in Hfl. destruct (Pos.eqb_spec (wm_id y) (wm_id y0)) as [E|E]; [discriminate|]. apply M0; assumption.
  - intros L0 N5 y Hy. unfold f'. rewrite fl_set. destruct (Pos.eqb_spec (wm_id y) (wm_id y0)) as [E|E]; [discriminate|apply N5; exact Hy].
Qed.
End Sets.

(* ---------- send_anti_messages over a list of entries none of which is being annihilated ---------- *)
Lemma undo_all_sets g es : forall w pr mk,
  Loc g (k_flags w) (pend w) (procs_of es ++ pr) (marks_of es ++ mk) (k_next w) ->
  Mk0 (k_flags w) (pend w) (marks_of es ++ mk) -> No5 (k_flags w) (procs_of es) ->
  (forall o, In (ESent o) es -> (g <= Z.of_N (tm o))%Z) ->
  let w' := fold_left undo_entry es w in
  Loc g (k_flags w') (pend w') pr mk (k_next w') /\
  (forall y, Live (k_flags w') (pend w') y <-> Live (k_flags w) (pend w) y \/ In y (procs_of es)) /\
  (forall i, Dm (k_flags w') (pend w') pr i <-> Dm (k_flags w) (pend w) (procs_of es ++ pr) i \/ In i (map wm_id (marks_of es))) /\
  Mk0 (k_flags w') (pend w') mk /\ (forall L, No5 (k_flags w) L -> No5 (k_flags w') L) /\ k_next w' = k_next w /\
  (forall y, ~ In (wm_id y) (map wm_id (marks_of es)) -> ~ In (wm_id y) (map wm_id (procs_of es)) -> fl (k_flags w') y = fl (k_flags w) y).
Proof.
  induction es as [|e es IH]; intros w pr mk HL M0 N5 Hge; cbn [fold_left].
  - cbn [procs_of marks_of flat_map app map] in *. split; [exact HL|]. split; [intros y; cbn [In]; tauto|]. split; [intros i; cbn [In]; tauto|].
    split; [exact M0|split; [intros L0 H; exact H|split; [reflexivity|intros y _ _; reflexivity]]].
  - destruct e as [o|y0].
    + change (procs_of (ESent o :: es)) with (procs_of es) in *.
      change (marks_of (ESent o :: es) ++ mk) with (o :: (marks_of es ++ mk)) in *.
      change (map wm_id (marks_of (ESent o :: es))) with (wm_id o :: map wm_id (marks_of es)).
      assert (Hstep : let w1 := undo_entry w (ESent o) in
                Loc g (k_flags w1) (pend w1) (procs_of es ++ pr) (marks_of es ++ mk) (k_next w1) /\
                (forall y, Live (k_flags w1) (pend w1) y <-> Live (k_flags w) (pend w) y) /\
                (forall i, Dm (k_flags w1) (pend w1) (procs_of es ++ pr) i <-> Dm (k_flags w) (pend w) (procs_of es ++ pr) i \/ i = wm_id o) /\
                Mk0 (k_flags w1) (pend w1) (marks_of es ++ mk) /\ (forall L, No5 (k_flags w) L -> No5 (k_flags w1) L) /\ k_next w1 = k_next w /\
                (forall y, wm_id y <> wm_id o -> fl (k_flags w1) y = fl (k_flags w) y)).
      { destruct (Loc_unmark _ _ _ _ _ _ _ HL (Hge o (or_introl eq_refl))) as [[Hf HL']|[Hf HL']]; cbn zeta; unfold undo_entry, flag_add; fold (fl (k_flags w) o); rewrite Hf.
        - destruct (unmark0_sets _ _ _ _ _ _ o HL M0 Hf) as (S1 & S2 & S3 & S4). cbn. split; [exact HL'|]. split; [exact S1|]. split; [exact S2|]. split; [exact S3|]. split; [exact S4|split; [reflexivity|intros y Hy; apply fl_set_other; exact Hy]].
        - destruct (unmark2_sets _ _ _ _ _ _ o HL M0 Hf (Hge o (or_introl eq_refl))) as (S1 & S2 & S3 & S4). cbn. split; [exact HL'|]. split; [exact S1|]. split; [exact S2|]. split; [exact S3|]. split; [exact S4|split; [reflexivity|intros y Hy; apply fl_set_other; exact Hy]]. }
      cbn zeta in Hstep. destruct Hstep as (H1 & H2 & H3 & H4 & H5 & H6 & H7).
      destruct (IH (undo_entry w (ESent o)) pr mk H1 H4 (H5 _ N5) (fun o' Ho' => Hge o' (or_intror Ho'))) as (I1 & I2 & I3 & I4 & I5 & I6 & I7). cbn zeta in *.
      split; [exact I1|]. split; [intros y; rewrite I2, H2; tauto|]. split; [|split; [exact I4|split; [intros L0 H; apply I5; apply H5; exact H|split; [rewrite I6; exact H6|]]]].
      * intros i. rewrite I3, H3. cbn [In]. split; [intros [[H|H]|H]; auto|intros [H|[H|H]]; auto].
      * intros y Hm Hp. cbn [In] in Hm. rewrite I7 by tauto. apply H7. intro E. apply Hm. left. symmetry. exact E.
    + change (marks_of (EProc y0 :: es)) with (marks_of es) in *.
      change (procs_of (EProc y0 :: es) ++ pr) with (y0 :: (procs_of es ++ pr)) in *.
      change (procs_of (EProc y0 :: es)) with (y0 :: procs_of es) in *.
      assert (Hstep : let w1 := undo_entry w (EProc y0) in
                Loc g (k_flags w1) (pend w1) (procs_of es ++ pr) (marks_of es ++ mk) (k_next w1) /\
                (forall y, Live (k_flags w1) (pend w1) y <-> Live (k_flags w) (pend w) y \/ y = y0) /\
                (forall i, Dm (k_flags w1) (pend w1) (procs_of es ++ pr) i <-> Dm (k_flags w) (pend w) (y0 :: (procs_of es ++ pr)) i) /\
                Mk0 (k_flags w1) (pend w1) (marks_of es ++ mk) /\ (forall L, No5 (k_flags w) L -> No5 (k_flags w1) L) /\ k_next w1 = k_next w /\
                (forall y, wm_id y <> wm_id y0 -> fl (k_flags w1) y = fl (k_flags w) y)).
      { destruct (Loc_unproc _ _ _ _ _ _ _ HL) as [[Hf HL']|[[Hf HL']|[Hf HL']]]; cbn zeta; unfold undo_entry, flag_sub; fold (fl (k_flags w) y0); rewrite Hf.
        - destruct (unproc2_sets _ _ _ _ _ _ y0 HL M0 Hf) as (S1 & S2 & S3 & S4). cbn. split; [exact HL'|]. split; [exact S1|]. split; [exact S2|]. split; [exact S3|]. split; [exact S4|split; [reflexivity|intros y Hy; apply fl_set_other; exact Hy]].
        - destruct (unproc3_sets _ _ _ _ _ _ y0 HL M0 Hf) as (S1 & S2 & S3 & S4). cbn. split; [exact HL'|]. split; [exact S1|]. split; [exact S2|]. split; [exact S3|]. split; [exact S4|split; [reflexivity|intros y Hy; apply fl_set_other; exact Hy]].
        - exfalso. apply (N5 y0 (or_introl eq_refl)). exact Hf. }
      cbn zeta in Hstep. destruct Hstep as (H1 & H2 & H3 & H4 & H5 & H6 & H7).
      assert (N5' : No5 (k_flags (undo_entry w (EProc y0))) (procs_of es)) by (apply H5; intros z Hz; apply N5; right; exact Hz).
      destruct (IH (undo_entry w (EProc y0)) pr mk H1 H4 N5' (fun o' Ho' => Hge o' (or_intror Ho'))) as (I1 & I2 & I3 & I4 & I5 & I6 & I7). cbn zeta in *.
      split; [exact I1|]. split; [intros y; rewrite I2, H2; cbn [In]; split; [intros [[H|H]|H]; auto|intros [H|[H|H]]; auto]|].
      split; [intros i; rewrite I3, H3; reflexivity|]. split; [exact I4|split; [intros L0 H; apply I5; apply H5; exact H|split; [rewrite I6; exact H6|]]].
      intros y Hm Hp. cbn [map In] in Hp. rewrite I7 by tauto. apply H7. intro E. apply Hp. left. symmetry. exact E.
Qed.

(* ---------- Part 3: the handler, the new messages ---------- *)
Fixpoint mknews (k : positive) (outs : list event) : list wmsg :=
  match outs with [] => [] | e :: r => mkWm k e :: mknews (Pos.succ k) r end.
Fixpoint psucc_n (n : nat) (k : positive) : positive := match n with O => k | S j => psucc_n j (Pos.succ k) end.

Lemma send_all_mk outs : forall w acc,
  snd (send_all w outs acc) = rev acc ++ map ESent (mknews (k_next w) outs) /\
  k_next (fst (send_all w outs acc)) = psucc_n (length outs) (k_next w).
Proof.
  induction outs as [|e r IH]; intros w acc; cbn [send_all mknews map length psucc_n fst snd].
  - rewrite app_nil_r. split; reflexivity.
  - match goal with |- context [send_all ?w0 r ?a] => destruct (IH w0 a) as [E1 E2] end.
    rewrite E1, E2. cbn [k_next rev]. rewrite <- app_assoc. split; reflexivity.
Qed.

Lemma mknews_ev k outs : map wm_ev (mknews k outs) = outs.
Proof. revert k. induction outs as [|e r IH]; intros k; cbn; [reflexivity|]. rewrite IH. reflexivity. Qed.

Lemma number_mknews l outs : forall k,
  Abs.number cont (Pos.to_nat k) l (map pay_of outs) = map amsg (mknews k outs).
Proof.
  induction outs as [|e r IH]; intros k; cbn [map mknews Abs.number]; [reflexivity|].
  unfold pay_of at 1. cbn [Abs.number]. rewrite <- IH. rewrite Pos2Nat.inj_succ. reflexivity.
Qed.
Lemma psucc_n_nat n : forall k, Pos.to_nat (psucc_n n k) = Pos.to_nat k + n.
Proof. induction n as [|n IH]; intros k; cbn [psucc_n]; [lia|]. rewrite IH, Pos2Nat.inj_succ. lia. Qed.

Section Handler.
Variable p : prog.

Lemma replay_flat gs : forall st, replay p st (flat gs) = fold_left (fun s g => fst (handle p (wm_ev (snd g)) s)) gs st.
Proof.
  induction gs as [|g gs IH]; intros st; [reflexivity|]. unfold flat. cbn [flat_map]. fold (flat gs).
  rewrite replay_app. unfold flat1. rewrite replay_app.
  assert (Hs : all_sent (map ESent (fst g))) by (apply Forall_forall; intros e He; apply in_map_iff in He; destruct He as (z & <- & _); reflexivity).
  rewrite (replay_sent p st _ Hs). cbn [fold_left]. unfold replay at 2. cbn [fold_left]. apply IH.
Qed.

Lemma ahandle_eq l s ev : (l < nlps p)%nat -> e_dest ev = N.of_nat l ->
  ahandle p l s (cont_of ev) = (fst (handle p ev s), map pay_of (snd (handle p ev s))).
Proof.
  intros Hl Hd. unfold ahandle. destruct (Nat.ltb_spec l (nlps p)); [|lia].
  assert (E : ev_of l (cont_of ev) = ev) by (destruct ev as [d t y pl]; unfold ev_of, cont_of, c_t, c_type, c_pl; cbn in *; rewrite Hd; reflexivity).
  rewrite E. destruct (handle p ev s); reflexivity.
Qed.

Lemma stof_flat l gs : (l < nlps p)%nat -> (forall g, In g gs -> e_dest (wm_ev (snd g)) = N.of_nat l) -> forall st,
  fold_left (fun s e => fst (ahandle p l s (Abs.mc cont (Abs.em cont e)))) (map ent gs) st =
  fold_left (fun s g => fst (handle p (wm_ev (snd g)) s)) gs st.
Proof.
  intros Hl. induction gs as [|g gs IH]; intros Hd st; [reflexivity|]. cbn [map fold_left].
  unfold ent at 2. cbn [Abs.em Abs.mc amsg]. rewrite (ahandle_eq l st (wm_ev (snd g)) Hl (Hd g (or_introl eq_refl))). cbn [fst].
  apply IH. intros g' Hg'. apply Hd. right. exact Hg'.
Qed.
End Handler.

(* ---------- Part 4: the simulation relation ---------- *)
Lemma flat_last gs g : nth_error (flat (gs ++ [g])) (pred (length (flat (gs ++ [g])))) = Some (EProc (snd g)).
Proof.
  rewrite flat_app. unfold flat at 2 4. cbn [flat_map]. rewrite app_nil_r. unfold flat1. rewrite !app_length. cbn [length].
  rewrite nth_error_app2 by lia. rewrite nth_error_app2 by lia.
  replace (pred (length (flat gs) + (length (map ESent (fst g)) + 1)) - length (flat gs) - length (map ESent (fst g))) with 0 by lia. reflexivity.
Qed.
Lemma flat_length_pos g gs : 0 < length (flat (g :: gs)).
Proof. unfold flat. cbn [flat_map]. unfold flat1. rewrite !app_length. cbn. lia. Qed.

Lemma keep_undo_groups (a : Abs.abs cont) f s gk gu :
  (forall g, In g (gk ++ gu) -> Abs.dbefore cont cltb tltb a (amsg s) (ent g) = wbefore f s (snd g)) ->
  (forall g, In g gu -> wbefore f s (snd g) = true) ->
  (gk = [] \/ exists gk' g, gk = gk' ++ [g] /\ wbefore f s (snd g) = false) ->
  Abs.keep_of (Abs.dbefore cont cltb tltb a (amsg s)) (map ent (gk ++ gu)) = map ent gk /\
  Abs.undo_of (Abs.dbefore cont cltb tltb a (amsg s)) (map ent (gk ++ gu)) = map ent gu.
Proof.
  intros Hd Hu Hk. rewrite map_app. apply keep_of_unique.
  - intros x Hx. apply in_map_iff in Hx. destruct Hx as (g & <- & Hg). rewrite Hd by (apply in_or_app; right; exact Hg). apply Hu. exact Hg.
  - destruct Hk as [->|(gk' & g & -> & Hg)]; [left; reflexivity|right]. exists (map ent gk'), (ent g). rewrite map_app. split; [reflexivity|].
    rewrite Hd by (apply in_or_app; left; apply in_or_app; right; left; reflexivity). exact Hg.
Qed.

Section Sim.
Variable p : prog.
Variable ck : nat.
Hypothesis Hvalid : prog_valid p = true.
Hypothesis Htypes : types_okb p = true.

Definition init0 : list (Abs.msg cont) := map amsg (pend (w_init p)).
Definition N0 : nat := Pos.to_nat (k_next (w_init p)).
Notation n := (nlps p).
Notation areach := (Bridge.reach cont cltb tltb lpstate n (AppAbs.s0 p) (ahandle p) init0 N0).
Notation astep := (Abs.step cont cltb tltb lpstate n (AppAbs.s0 p) (ahandle p)).
Notation aInv := (Abs.Inv cont n init0).
Definition is_init (m : wmsg) : Prop := e_type (wm_ev m) = LP_INIT_TYPE.

Definition stofg (l : nat) (gs : list group) : lpstate := Abs.stof cont lpstate (AppAbs.s0 p) (ahandle p) l (map ent gs).

(* [g0]: the LP_INIT group while it is retained ([] after the first fossil collection); [gdone]: the groups fossil collection has
   released so far (ghost: they only exist on the abstract side); [gs]: the retained groups *)
Record R (w : worker) (a : Abs.abs cont) : Prop := {
  r_full : full p w;
  r_len : length (k_lps w) = n;
  r_mk0 : Mk0 (k_flags w) (pend w) (allmarks (k_lps w));
  r_no5 : No5 (k_flags w) (allprocs (k_lps w));
  r_reach : areach a;
  r_hist : forall l, l < n -> exists g0 gdone gs : list group, x_hist (get_lp w l) = flat (g0 ++ gs) /\
             base (get_lp w l) = (length (flat g0), stofg l gdone) /\ Abs.hist cont a l = map ent (gdone ++ gs) /\
             (forall g, In g gdone -> (Z.of_N (tm (snd g)) < k_gvt w)%Z /\ Abs.doomedb cont a (amsg (snd g)) = false) /\
             ((exists ms im, g0 = [(ms, im)] /\ is_init im /\ gdone = []) \/ g0 = []);
  r_pool : forall x, In x (Abs.pool cont a) <-> exists y, Live (k_flags w) (pend w) y /\ x = amsg y;
  r_antis : forall i, In i (Abs.antis cont a) <-> exists j, Dm (k_flags w) (pend w) (allprocs (k_lps w)) j /\ i = Pos.to_nat j;
  r_nid : Abs.nid cont a = Pos.to_nat (k_next w)
}.

Lemma once_loc w : full p w -> Loc (k_gvt w) (k_flags w) (pend w) (allprocs (k_lps w)) (allmarks (k_lps w)) (k_next w).
Proof. intros F. exact (f_once p w F). Qed.

(* a processed message is cancelled on the abstract side exactly when its flag word says so *)
Lemma doomed_iff w a y : R w a -> In y (allprocs (k_lps w)) -> (Abs.doomedb cont a (amsg y) = true <-> fl (k_flags w) y = 3%N).
Proof.
  intros Hr Hy. pose proof (once_loc w (r_full _ _ Hr)) as L.
  rewrite (Abs.doomedb_true cont). rewrite (r_antis _ _ Hr). split.
  - intros (j & (y' & Ey & H) & Ej). cbn [amsg Abs.mid] in Ej. apply Pos2Nat.inj in Ej. rewrite <- Ej in Ey.
    assert (Efl : fl (k_flags w) y' = fl (k_flags w) y) by (unfold fl; rewrite Ey; reflexivity).
    destruct (l_pr _ _ _ _ _ _ L y Hy) as [[H1 _]|[[H1 _]|[H1 _]]]; [exact H1| |exfalso; apply (r_no5 _ _ Hr y Hy); exact H1].
    destruct H as [[_ H]|[_ [H|H]]]; rewrite Efl, H1 in H; discriminate.
  - intros Hf. exists (wm_id y). split; [|reflexivity]. exists y. split; [reflexivity|right]. split; [exact Hy|left; exact Hf].
Qed.

Lemma dbefore_wbefore w a s y f : R w a -> In y (allprocs (k_lps w)) -> (forall z, wm_id z <> wm_id s -> fl f z = fl (k_flags w) z) -> wm_id y <> wm_id s ->
  fl f s = 2%N -> Abs.dbefore cont cltb tltb a (amsg s) (ent ([], y)) = wbefore f s y.
Proof.
  intros Hr Hy Hf Hne Hs. pose proof (once_loc w (r_full _ _ Hr)) as L.
  unfold Abs.dbefore. cbn [ent Abs.em snd amsg Abs.mc].
  assert (Es : Z.land (Z.of_N (fl f s)) 1 = 0%Z) by (rewrite Hs; reflexivity).
  destruct (Abs.doomedb cont a (amsg y)) eqn:Ed.
  - apply (doomed_iff w a y Hr Hy) in Ed. symmetry. apply wbefore_doomed; [exact Es|]. rewrite (Hf y Hne), Ed. reflexivity.
  - assert (H2 : fl (k_flags w) y = 2%N).
    { destruct (l_pr _ _ _ _ _ _ L y Hy) as [[H1 _]|[[H1 _]|[H1 _]]]; [|exact H1|exfalso; apply (r_no5 _ _ Hr y Hy); exact H1].
      apply (doomed_iff w a y Hr Hy) in H1. congruence. }
    symmetry. apply wbefore_valid; [exact Es|]. rewrite (Hf y Hne), H2. reflexivity.
Qed.

Lemma Live_perm f pd pd' y : Permutation pd pd' -> (Live f pd y <-> Live f pd' y).
Proof. intros P. unfold Live. split; intros [H1 H2]; (split; [|exact H2]); [apply (Permutation_in _ P H1)|apply (Permutation_in _ (Permutation_sym P) H1)]. Qed.
Lemma Dm_perm f pd pd' pr i : Permutation pd pd' -> (Dm f pd pr i <-> Dm f pd' pr i).
Proof.
  intros P. unfold Dm. split; intros (y & Ey & H); exists y; (split; [exact Ey|]); destruct H as [[H1 H2]|H]; try (right; exact H); left; (split; [|exact H2]);
    [apply (Permutation_in _ P H1)|apply (Permutation_in _ (Permutation_sym P) H1)].
Qed.

(* operations that only move pending messages around leave the abstract state where it is *)
Lemma R_perm w w' a : R w a -> full p w' -> Permutation (pend w) (pend w') -> k_flags w' = k_flags w -> k_lps w' = k_lps w ->
  k_next w' = k_next w -> k_gvt w' = k_gvt w -> R w' a.
Proof.
  intros [F Hl M0 N5 Hre Hh Hp Ha Hn] F' P Ef El En Eg.
  constructor; try assumption.
  - rewrite El. exact Hl.
  - rewrite Ef, El. intros o Ho Hf. apply (Permutation_in _ P). apply M0; assumption.
  - rewrite Ef, El. exact N5.
  - intros l Hlt. unfold get_lp. rewrite El, Eg. apply Hh. exact Hlt.
  - intros x. rewrite Hp, Ef. split; intros (y & Hy & E); exists y; (split; [|exact E]); [apply (Live_perm _ _ _ _ P)|apply (Live_perm _ _ _ _ P)]; exact Hy.
  - intros i. rewrite Ha, Ef, El. split; intros (j & Hj & E); exists j; (split; [|exact E]); [apply (Dm_perm _ _ _ _ _ P)|apply (Dm_perm _ _ _ _ _ P)]; exact Hj.
  - rewrite En. exact Hn.
Qed.

Lemma hold_epoch k : forall w, k_epoch (hold k w) = k_epoch w.
Proof.
  induction k as [|k IH]; intros w; cbn [hold]; [reflexivity|]. pose proof (extract_frame w) as Hfr.
  destruct (wq_extract w) as [[m|] w1]; cbn [snd] in Hfr; cbn zeta in Hfr; destruct Hfr as (_ & _ & _ & _ & _ & Ee); [rewrite IH; exact Ee|exact Ee].
Qed.
Lemma unhold_epoch i w : k_epoch (unhold i w) = k_epoch w.
Proof. unfold unhold. destruct (k_held w); [reflexivity|]. destruct (nth _ _ _); reflexivity. Qed.
Lemma unhold_all_epoch w : k_epoch (unhold_all w) = k_epoch w.
Proof.
  unfold unhold_all. cbn [set_held k_epoch].
  assert (G : forall hs w0, k_epoch (fold_left (fun w' h => match h with Some m => wq_insert w' m | None => w' end) hs w0) = k_epoch w0).
  { induction hs as [|h hs IH]; intros w0; cbn; [reflexivity|]. rewrite IH. destruct h; reflexivity. }
  apply G.
Qed.

Notation H_time := (fun ev st e => app_handle_time p ev st e).
Notation H_type := (fun ev st e => app_handle_type p ev st e Htypes).
Notation H_dest := (fun ev st e => app_handle_dest p ev st e).

Lemma n_eq : n = N.to_nat (p_lps p).
Proof. reflexivity. Qed.

(* ---------- abstract facts available in a related state ---------- *)
Lemma init0_nodup : NoDup (map (Abs.mid cont) init0).
Proof.
  unfold init0. rewrite map_map. cbn [amsg Abs.mid].
  destruct (w_init_full p H_time H_type H_dest (fun me e => app_init p me e Htypes)) as [F _].
  pose proof (f_once p _ F) as L. pose proof (l_nd_pd _ _ _ _ _ _ L) as Hnd.
  rewrite <- (map_map wm_id Pos.to_nat). apply FinFun.Injective_map_NoDup; [intros x y; apply Pos2Nat.inj|exact Hnd].
Qed.
Lemma init0_lt m : In m init0 -> Abs.mid cont m < N0.
Proof.
  unfold init0, N0. intros H. apply in_map_iff in H. destruct H as (y & <- & Hy). cbn [amsg Abs.mid].
  destruct (w_init_full p H_time H_type H_dest (fun me e => app_init p me e Htypes)) as [F _].
  pose proof (l_lt _ _ _ _ _ _ (f_once p _ F) y ltac:(apply in_or_app; left; exact Hy)) as Hlt. apply Pos2Nat.inj_lt. exact Hlt.
Qed.
Lemma reach_Inv a : areach a -> aInv a.
Proof.
  intros Hr. exact (proj1 (Bridge.reach_inv cont cltb clt_trans clt_total tltb tlt_clt tlt_negtrans lpstate n (AppAbs.s0 p) (ahandle p) init0
                            init0_nodup N0 init0_lt a Hr)).
Qed.
Lemma pool_nodup a : aInv a -> NoDup (map (Abs.mid cont) (Abs.pool cont a)).
Proof. intros I. pose proof (Abs.i_nd_placed cont n init0 a I) as H. unfold Abs.placed in H. rewrite map_app in H. apply (Abs.nodup_app_l _ _ H). Qed.

Lemma remove1_in_iff (l : list (Abs.msg cont)) i x : NoDup (map (Abs.mid cont) l) ->
  (In x (Abs.remove1 cont i l) <-> In x l /\ Abs.mid cont x <> i).
Proof.
  induction l as [|h t IH]; intros Hnd; cbn [Abs.remove1 In]; [tauto|]. cbn [map] in Hnd. inversion Hnd as [|? ? Hh Ht]; subst.
  destruct (Nat.eqb_spec (Abs.mid cont h) i) as [E|E].
  - split; [intros Hx; split; [right; exact Hx|]|intros [[<-|Hx] Hne]; [contradiction|exact Hx]].
    intro Ex. apply Hh. rewrite E, <- Ex. apply in_map. exact Hx.
  - cbn [In]. rewrite (IH Ht). split; [intros [<-|[Hx Hne]]; [split; [left; reflexivity|exact E]|split; [right; exact Hx|exact Hne]]|].
    intros [[<-|Hx] Hne]; [left; reflexivity|right; split; assumption].
Qed.
Lemma remove_id_in_iff (l : list nat) i x : NoDup l -> (In x (Abs.remove_id i l) <-> In x l /\ x <> i).
Proof.
  induction l as [|h t IH]; intros Hnd; cbn [Abs.remove_id In]; [tauto|]. inversion Hnd as [|? ? Hh Ht]; subst.
  destruct (Nat.eqb_spec h i) as [E|E].
  - subst h. split; [intros Hx; split; [right; exact Hx|intros ->; contradiction]|intros [[<-|Hx] Hne]; [contradiction|exact Hx]].
  - cbn [In]. rewrite (IH Ht). split; [intros [<-|[Hx Hne]]; [split; [left; reflexivity|exact E]|split; [right; exact Hx|exact Hne]]|].
    intros [[<-|Hx] Hne]; [left; reflexivity|right; split; assumption].
Qed.

(* identities: within the pending and processed messages an identity determines the message *)
Lemma same_id w y z : full p w -> In y (pend w ++ allprocs (k_lps w) ++ allmarks (k_lps w)) ->
  In z (pend w ++ allprocs (k_lps w) ++ allmarks (k_lps w)) -> wm_id y = wm_id z -> y = z.
Proof. intros F Hy Hz E. exact (l_body _ _ _ _ _ _ (once_loc w F) y z Hy Hz E). Qed.

Lemma fix_bound_epoch x : x_epoch (fix_bound x) = x_epoch x.
Proof. unfold fix_bound. destruct (x_hist x); reflexivity. Qed.
Lemma fix_bound_base x : base (fix_bound x) = base x.
Proof. unfold base. rewrite fix_bound_logs. reflexivity. Qed.

Lemma get_put_other w l x i : i <> l -> get_lp (put_lp w l x) i = get_lp w i.
Proof. intros H. unfold get_lp. cbn [put_lp set_lps k_lps]. apply (nth_set_nth_other ck). exact H. Qed.

Lemma doomedb_false_sub (a a' : Abs.abs cont) x : (forall i, In i (Abs.antis cont a') -> In i (Abs.antis cont a)) ->
  Abs.doomedb cont a x = false -> Abs.doomedb cont a' x = false.
Proof.
  intros Hsub Hf. destruct (Abs.doomedb cont a' x) eqn:E; [|reflexivity]. apply (Abs.doomedb_true cont) in E. apply Hsub in E.
  apply (Abs.doomedb_true cont) in E. congruence.
Qed.
Lemma remove_id_sub i l x : In x (Abs.remove_id i l) -> In x l.
Proof. induction l as [|h t IH]; cbn [Abs.remove_id]; [tauto|]. destruct (Nat.eqb h i); [intros H; right; exact H|intros [H|H]; [left; exact H|right; apply IH; exact H]]. Qed.

(* ---------- a message cancelled while pending is dropped: abstract step s_drop ---------- *)
Lemma sim_drop w a w1 m : R w a -> Permutation (pend w) (m :: pend w1) ->
  k_flags w1 = k_flags w -> k_next w1 = k_next w -> k_gvt w1 = k_gvt w -> k_lps w1 = k_lps w ->
  fl (k_flags w) m = 1%N ->
  let l := N.to_nat (e_dest (wm_ev m)) in
  let w3 := set_flags w1 (flag_set (k_flags w1) (wm_id m) 3) in
  let w' := put_lp w3 l (fix_bound (get_lp w3 l)) in
  full p w' -> exists a', astep a a' /\ R w' a'.
Proof.
  intros Hr Hperm Ef En Eg El Hfm l w3 w' F'.
  pose proof Hr as [F Hlen M0 N5 Hre Hh Hp Ha Hn].
  pose proof (once_loc w F) as L.
  assert (HL1 : Loc (k_gvt w) (k_flags w) (m :: pend w1) (allprocs (k_lps w)) (allmarks (k_lps w)) (k_next w)) by (eapply Loc_perm; [exact L|exact Hperm|apply Permutation_refl|apply Permutation_refl]).
  assert (Hmin : In m (pend w)) by (apply (Permutation_in _ (Permutation_sym Hperm)); left; reflexivity).
  destruct (f_extra p w F) as [Hxp Hxl]. destruct (Hxp m Hmin) as [_ Hdl]. fold l in Hdl. rewrite Hlen in Hdl.
  destruct (nodup_cons_id m (pend w1) (l_nd_pd _ _ _ _ _ _ HL1)) as [Hnm1 _].
  assert (Hnpr : ~ In m (allprocs (k_lps w))).
  { destruct (l_pd _ _ _ _ _ _ L m Hmin) as [[H _]|[_ H]]; [rewrite Hfm in H; discriminate|exact H]. }
  assert (Hnmk : ~ In m (allmarks (k_lps w))).
  { intro H. destruct (l_mk _ _ _ _ _ _ L m H) as [H1|[H1 _]]; rewrite Hfm in H1; discriminate. }
  assert (Hid : forall y, In y (pend w ++ allprocs (k_lps w) ++ allmarks (k_lps w)) -> wm_id y = wm_id m -> y = m).
  { intros y Hy E. apply (same_id w y m F Hy); [apply in_or_app; left; exact Hmin|exact E]. }
  assert (Hl1 : l < length (k_lps w1)) by (rewrite El, Hlen; exact Hdl).
  destruct (put_same_hist w3 l (fix_bound (get_lp w3 l)) Hl1 (fix_bound_hist _)) as [Epp Emm].
  change (k_lps w3) with (k_lps w1) in Epp, Emm. rewrite El in Epp, Emm.
  set (f' := flag_set (k_flags w1) (wm_id m) 3).
  assert (Hfl : forall y, wm_id y <> wm_id m -> fl f' y = fl (k_flags w) y) by (intros y Hy; unfold f'; rewrite Ef; apply fl_set_other; exact Hy).
  assert (Hin1 : forall y, In y (pend w1) -> In y (pend w) /\ wm_id y <> wm_id m).
  { intros y Hy. assert (Hyw : In y (pend w)) by (apply (Permutation_in _ (Permutation_sym Hperm)); right; exact Hy). split; [exact Hyw|].
    assert (Hyall : In y (pend w ++ allprocs (k_lps w) ++ allmarks (k_lps w))) by (apply in_or_app; left; exact Hyw).
    intro E. apply Hnm1. rewrite <- (Hid y Hyall E). exact Hy. }
  pose proof (reach_Inv a Hre) as I.
  assert (Hpm : In (amsg m) (Abs.pool cont a)) by (apply Hp; exists m; split; [split; [exact Hmin|right; exact Hfm]|reflexivity]).
  assert (Hdm : Abs.doomedb cont a (amsg m) = true).
  { apply (Abs.doomedb_true cont). apply Ha. exists (wm_id m). split; [|reflexivity]. exists m. split; [reflexivity|left; split; assumption]. }
  eexists. split; [apply (Abs.s_drop cont cltb tltb lpstate n (AppAbs.s0 p) (ahandle p) a (amsg m) Hpm Hdm)|].
  constructor; cbn [Abs.hist Abs.pool Abs.antis Abs.nid].
  - exact F'.
  - unfold w'. cbn [put_lp set_lps k_lps]. rewrite set_nth_length. change (k_lps w3) with (k_lps w1). rewrite El. exact Hlen.
  - unfold w'. rewrite Emm. change (pend (put_lp w3 _ _)) with (pend w1). change (k_flags (put_lp w3 _ _)) with f'.
    intros o Ho Hfo. destruct (Pos.eq_dec (wm_id o) (wm_id m)) as [E|E].
    + exfalso. apply Hnmk. rewrite <- (Hid o ltac:(rewrite !in_app_iff; tauto) E). exact Ho.
    + rewrite (Hfl o E) in Hfo. pose proof (M0 o Ho Hfo) as Hop. apply (Permutation_in _ Hperm) in Hop. destruct Hop as [<-|Hop]; [congruence|exact Hop].
  - unfold w'. rewrite Epp. change (k_flags (put_lp w3 _ _)) with f'. intros y Hy. destruct (Pos.eq_dec (wm_id y) (wm_id m)) as [E|E].
    + exfalso. apply Hnpr. rewrite <- (Hid y ltac:(rewrite !in_app_iff; tauto) E). exact Hy.
    + rewrite (Hfl y E). apply N5. exact Hy.
  - eapply Bridge.rs; [exact Hre|]. apply (Abs.s_drop cont cltb tltb lpstate n (AppAbs.s0 p) (ahandle p) a (amsg m) Hpm Hdm).
  - intros i Hi. destruct (Hh i Hi) as (g0 & gdone & gs & E1 & E2 & E3 & E4 & E5). exists g0, gdone, gs.
    assert (Eget : x_hist (get_lp w' i) = x_hist (get_lp w i) /\ base (get_lp w' i) = base (get_lp w i)).
    { unfold w'. destruct (Nat.eq_dec i l) as [->|Hne].
      - rewrite (get_lp_set w3 l _ Hl1), fix_bound_hist, fix_bound_base. unfold get_lp. change (k_lps w3) with (k_lps w1). rewrite El. split; reflexivity.
      - rewrite (get_put_other w3 l _ i Hne). unfold get_lp. change (k_lps w3) with (k_lps w1). rewrite El. split; reflexivity. }
    destruct Eget as [-> ->]. split; [exact E1|]. split; [exact E2|]. split; [exact E3|]. split; [|exact E5].
    intros g Hgg. destruct (E4 g Hgg) as [H1 H2]. split; [change (k_gvt w') with (k_gvt w1); rewrite Eg; exact H1|].
    apply (doomedb_false_sub a); [|exact H2]. cbn [Abs.antis]. intros j Hj. apply (remove_id_sub _ _ _ Hj).
  - intros x. rewrite (remove1_in_iff _ _ _ (pool_nodup a I)). rewrite Hp. change (pend w') with (pend w1). change (k_flags w') with f'. split.
    + intros [(y & [Hy Hfy] & ->) Hne]. cbn [amsg Abs.mid] in Hne. assert (Hne' : wm_id y <> wm_id m) by (intro E; apply Hne; rewrite E; reflexivity).
      exists y. split; [|reflexivity]. split; [|rewrite (Hfl y Hne'); exact Hfy].
      apply (Permutation_in _ Hperm) in Hy. destruct Hy as [<-|Hy]; [congruence|exact Hy].
    + intros (y & [Hy Hfy] & ->). destruct (Hin1 y Hy) as [Hyw Hne]. rewrite (Hfl y Hne) in Hfy. split; [exists y; split; [split; assumption|reflexivity]|].
      cbn [amsg Abs.mid]. intro E. apply Hne. apply Pos2Nat.inj. exact E.
  - intros i. rewrite (remove_id_in_iff _ _ _ (Abs.i_nd_antis cont n init0 a I)). rewrite Ha. unfold w'. rewrite Epp. change (pend (put_lp w3 _ _)) with (pend w1).
    change (k_flags (put_lp w3 _ _)) with f'. cbn [amsg Abs.mid]. split.
    + intros [(j & (y & Ey & H) & ->) Hne]. assert (Hne' : wm_id y <> wm_id m) by (intro E; apply Hne; rewrite <- Ey, E; reflexivity).
      exists j. split; [|reflexivity]. exists y. split; [exact Ey|]. rewrite (Hfl y Hne'). destruct H as [[Hy Hfy]|H]; [left; split; [|exact Hfy]|right; exact H].
      apply (Permutation_in _ Hperm) in Hy. destruct Hy as [<-|Hy]; [congruence|exact Hy].
    + intros (j & (y & Ey & H) & ->). assert (Hne' : wm_id y <> wm_id m).
      { destruct H as [[Hy _]|[Hy _]]; [exact (proj2 (Hin1 y Hy))|]. intro E. apply Hnpr. rewrite <- (Hid y ltac:(rewrite !in_app_iff; tauto) E). exact Hy. }
      rewrite (Hfl y Hne') in H. split; [exists j; split; [|reflexivity]; exists y; split; [exact Ey|]|].
      * destruct H as [[Hy Hfy]|H]; [left; split; [exact (proj1 (Hin1 y Hy))|exact Hfy]|right; exact H].
      * intro E. apply Hne'. rewrite Ey. apply Pos2Nat.inj. exact E.
  - change (k_next w') with (k_next w1). rewrite En. exact Hn.
Qed.

(* ---------- exact effect of ScheduleNewEvent and of the forward execution ---------- *)
Lemma mknews_ids_ge outs : forall k z, In z (mknews k outs) -> (k <= wm_id z)%positive.
Proof.
  induction outs as [|e r IH]; intros k z H; cbn [mknews] in H; [destruct H|]. destruct H as [<-|H]; [cbn; apply Pos.le_refl|].
  apply IH in H. eapply Pos.le_trans; [|exact H]. apply Pos.lt_le_incl. apply Pos.lt_succ_diag_r.
Qed.

Lemma send_all_exact outs : forall w acc,
  let r := send_all w outs acc in let news := mknews (k_next w) outs in
  snd r = rev acc ++ map ESent news /\ k_next (fst r) = psucc_n (length outs) (k_next w) /\
  pend (fst r) = rev news ++ pend w /\ k_lps (fst r) = k_lps w /\ k_gvt (fst r) = k_gvt w /\ k_epoch (fst r) = k_epoch w /\
  (forall y, In y news -> fl (k_flags (fst r)) y = 0%N) /\
  (forall y, (forall z, In z news -> wm_id z <> wm_id y) -> fl (k_flags (fst r)) y = fl (k_flags w) y).
Proof.
  induction outs as [|e r IH]; intros w acc; cbn zeta; cbn [send_all mknews map length psucc_n fst snd rev].
  - rewrite app_nil_r. repeat split; try reflexivity. intros y [].
  - match goal with |- context [send_all ?w0 r ?a] => destruct (IH w0 a) as (E1 & E2 & E3 & E4 & E5 & E6 & E7 & E8); set (w1 := w0) in * end.
    cbn zeta in *. change (k_next w1) with (Pos.succ (k_next w)) in *.
    rewrite E1, E2, E3, E4, E5, E6. cbn [rev]. rewrite <- !app_assoc.
    split; [reflexivity|]. split; [reflexivity|]. split; [reflexivity|]. split; [reflexivity|]. split; [reflexivity|]. split; [reflexivity|].
    set (m0 := mkWm (k_next w) e) in *.
    assert (Hm0 : forall z, In z (mknews (Pos.succ (k_next w)) r) -> wm_id z <> wm_id m0).
    { intros z Hz E. apply mknews_ids_ge in Hz. rewrite E in Hz. cbn in Hz. apply (Pos.lt_irrefl (k_next w)). eapply Pos.lt_le_trans; [apply Pos.lt_succ_diag_r|exact Hz]. }
    split.
    + intros y [<-|Hy]; [|apply E7; exact Hy]. rewrite (E8 m0 Hm0). unfold w1. cbn [k_flags]. apply (fl_set_same (k_flags w) m0 0).
    + intros y Hy. rewrite E8 by (intros z Hz; apply Hy; right; exact Hz). unfold w1. cbn [k_flags].
      apply (fl_set_other (k_flags w) (wm_id m0) 0 y). intro E. apply (Hy m0 (or_introl eq_refl)). symmetry. exact E.
Qed.

Lemma forward_exact w l m : l < length (k_lps w) -> lp_ok p (get_lp w l) ->
  let outs := snd (handle p (wm_ev m) (x_st (get_lp w l))) in let news := mknews (k_next w) outs in
  let w' := forward p ck w l m in
  x_hist (get_lp w' l) = x_hist (get_lp w l) ++ map ESent news ++ [EProc m] /\
  (forall i, i <> l -> get_lp w' i = get_lp w i) /\ base (get_lp w' l) = base (get_lp w l) /\ x_epoch (get_lp w' l) = x_epoch (get_lp w l) /\
  length (k_lps w') = length (k_lps w) /\
  k_next w' = psucc_n (length outs) (k_next w) /\ k_gvt w' = k_gvt w /\ k_epoch w' = k_epoch w /\ pend w' = rev news ++ pend w /\
  (forall y, In y news -> fl (k_flags w') y = 0%N) /\
  (forall y, (forall z, In z news -> wm_id z <> wm_id y) -> fl (k_flags w') y = fl (k_flags w) y).
Proof.
  intros Hl Hok. cbn zeta. unfold forward. destruct (handle p (wm_ev m) (x_st (get_lp w l))) as [st' outs]. cbn [snd].
  destruct (send_all_exact outs w []) as (E1 & E2 & E3 & E4 & E5 & E6 & E7 & E8). cbn zeta in *.
  destruct (send_all w outs []) as [w1 marks]. cbn [fst snd rev app] in *. subst marks.
  assert (Hl1 : l < length (k_lps w1)) by (rewrite E4; exact Hl).
  split; [rewrite (get_lp_set w1 l _ Hl1); reflexivity|]. split; [intros i Hi; rewrite (get_put_other w1 l _ i Hi); unfold get_lp; rewrite E4; reflexivity|].
  split; [|split; [rewrite (get_lp_set w1 l _ Hl1); reflexivity|]].
  - rewrite (get_lp_set w1 l _ Hl1). unfold base. cbn [x_logs]. destruct Hok as (newer & r0 & s0' & El & _).
    destruct (Nat.leb ck (S (x_rem (get_lp w l)))); [|reflexivity]. apply last_cons_ne. rewrite El. destruct newer; discriminate.
  - cbn [put_lp set_lps k_lps k_next k_gvt k_epoch k_flags]. change (pend (set_lps w1 _)) with (pend w1). rewrite set_nth_length, E4.
    repeat split; assumption.
Qed.

(* ---------- do_rollback: exact shape and what it does to the pool and to the cancelled set ---------- *)
Lemma do_rollback_unfold w l past ref snap older : drop_newer (x_logs (get_lp w l)) past = (ref, snap) :: older ->
  do_rollback p w l past =
  put_lp (fold_left undo_entry (skipn past (x_hist (get_lp w l))) w) l
         (mkLpx (firstn past (x_hist (get_lp w l))) (x_bound (get_lp w l))
                (replay p snap (sub (firstn past (x_hist (get_lp w l))) ref past)) ((ref, snap) :: older) (x_rem (get_lp w l)) (x_epoch (get_lp w l))).
Proof. intros Hd. unfold do_rollback. rewrite Hd. reflexivity. Qed.

Lemma Dm_ext f pd pr pr' i : (forall y, In y pr <-> In y pr') -> (Dm f pd pr i <-> Dm f pd pr' i).
Proof.
  intros H. unfold Dm. split; intros (y & Ey & Hy); exists y; (split; [exact Ey|]); destruct Hy as [Hy|[Hy Hf]]; try (left; exact Hy); right; (split; [|exact Hf]); apply H; exact Hy.
Qed.

Lemma rollback_sets w3 l hand gk0 gu :
  all_ok2 p w3 -> l < length (k_lps w3) -> x_hist (get_lp w3 l) = flat (gk0 ++ gu) -> fst (base (get_lp w3 l)) <= length (flat gk0) ->
  Loc (k_gvt w3) (k_flags w3) (pend w3) (hand ++ allprocs (k_lps w3)) (allmarks (k_lps w3)) (k_next w3) ->
  Mk0 (k_flags w3) (pend w3) (allmarks (k_lps w3)) -> No5 (k_flags w3) (map snd gu) ->
  (forall o, In o (flat_map fst gu) -> (k_gvt w3 <= Z.of_N (tm o))%Z) ->
  let w4 := do_rollback p w3 l (length (flat gk0)) in
  x_hist (get_lp w4 l) = flat gk0 /\ (forall i, i <> l -> get_lp w4 i = get_lp w3 i) /\ base (get_lp w4 l) = base (get_lp w3 l) /\
  x_epoch (get_lp w4 l) = x_epoch (get_lp w3 l) /\ length (k_lps w4) = length (k_lps w3) /\ k_next w4 = k_next w3 /\ k_gvt w4 = k_gvt w3 /\ k_epoch w4 = k_epoch w3 /\
  Loc (k_gvt w3) (k_flags w4) (pend w4) (hand ++ allprocs (k_lps w4)) (allmarks (k_lps w4)) (k_next w4) /\
  (forall y, Live (k_flags w4) (pend w4) y <-> Live (k_flags w3) (pend w3) y \/ In y (map snd gu)) /\
  (forall i, Dm (k_flags w4) (pend w4) (hand ++ allprocs (k_lps w4)) i <-> Dm (k_flags w3) (pend w3) (hand ++ allprocs (k_lps w3)) i \/ In i (map wm_id (flat_map fst gu))) /\
  Mk0 (k_flags w4) (pend w4) (allmarks (k_lps w4)) /\ (forall L, No5 (k_flags w3) L -> No5 (k_flags w4) L).
Proof.
  intros Hok Hl Eh Hb HL M0 N5 Hmt. set (x := get_lp w3 l) in *. set (past := length (flat gk0)).
  assert (Ef : firstn past (x_hist x) = flat gk0) by (unfold past; rewrite Eh, flat_app, firstn_app, firstn_all, Nat.sub_diag, firstn_O, app_nil_r; reflexivity).
  assert (Es : skipn past (x_hist x) = flat gu) by (unfold past; rewrite Eh, flat_app, skipn_app, skipn_all, Nat.sub_diag; reflexivity).
  destruct (get_ok2 p w3 l Hok Hl) as [Hlok _]. fold x in Hlok.
  pose proof (drop_newer_some p H_time x past Hlok Hb) as Hne.
  destruct (drop_newer (x_logs x) past) as [|[ref snap] older] eqn:Hd; [congruence|].
  cbn zeta. rewrite (do_rollback_unfold w3 l past ref snap older Hd). fold x. rewrite Ef, Es.
  set (restP := rest (fun y => procs_of (x_hist y)) (k_lps w3) l). set (restM := rest (fun y => marks_of (x_hist y)) (k_lps w3) l).
  assert (HL1 : Loc (k_gvt w3) (k_flags w3) (pend w3) (procs_of (flat gu) ++ (hand ++ procs_of (flat gk0) ++ restP)) (marks_of (flat gu) ++ (marks_of (flat gk0) ++ restM)) (k_next w3)).
  { eapply Loc_perm; [exact HL|apply Permutation_refl| |].
    - unfold allprocs. eapply perm_trans; [apply Permutation_app_head; apply (split_lp (fun y => procs_of (x_hist y)) (k_lps w3) l Hl)|].
      fold (get_lp w3 l). fold x. rewrite Eh, flat_app, procs_app. apply perm_pull2.
    - unfold allmarks. eapply perm_trans; [apply (split_lp (fun y => marks_of (x_hist y)) (k_lps w3) l Hl)|].
      fold (get_lp w3 l). fold x. rewrite Eh, flat_app, marks_app. apply perm_pull2'. }
  assert (M01 : Mk0 (k_flags w3) (pend w3) (marks_of (flat gu) ++ (marks_of (flat gk0) ++ restM))).
  { intros o Ho. apply M0. unfold allmarks. apply (Permutation_in _ (Permutation_sym (split_lp (fun y => marks_of (x_hist y)) (k_lps w3) l Hl))).
    fold (get_lp w3 l). fold x. rewrite Eh, flat_app, marks_app. fold restM. rewrite !in_app_iff in *. tauto. }
  assert (N51 : No5 (k_flags w3) (procs_of (flat gu))) by (rewrite procs_flat; exact N5).
  destruct (undo_all_sets (k_gvt w3) (flat gu) w3 _ _ HL1 M01 N51 ltac:(intros o Ho; apply Hmt; rewrite <- marks_flat; apply in_marks; exact Ho)) as (U1 & U2 & U3 & U4 & U5 & U6 & U7). cbn zeta in *.
  set (w1 := fold_left undo_entry (flat gu) w3) in *.
  assert (E1 : k_lps w1 = k_lps w3) by apply undo_all_lps.
  destruct (undo_all_frame (flat gu) w3) as (B1 & _ & _ & B4 & _ & _). cbn zeta in B1, B4. fold w1 in B1, B4.
  assert (Hl1 : l < length (k_lps w1)) by (rewrite E1; exact Hl).
  set (x' := mkLpx (flat gk0) (x_bound x) (replay p snap (sub (flat gk0) ref past)) ((ref, snap) :: older) (x_rem x) (x_epoch x)).
  assert (PP : Permutation (allprocs (k_lps (put_lp w1 l x'))) (procs_of (flat gk0) ++ restP)).
  { unfold allprocs. cbn [put_lp set_lps k_lps]. rewrite E1. exact (split_lp_set (fun y => procs_of (x_hist y)) (k_lps w3) l x' Hl). }
  assert (PM : Permutation (allmarks (k_lps (put_lp w1 l x'))) (marks_of (flat gk0) ++ restM)).
  { unfold allmarks. cbn [put_lp set_lps k_lps]. rewrite E1. exact (split_lp_set (fun y => marks_of (x_hist y)) (k_lps w3) l x' Hl). }
  split; [rewrite (get_lp_set w1 l x' Hl1); reflexivity|]. split; [intros i Hi; rewrite (get_put_other w1 l x' i Hi); unfold get_lp; rewrite E1; reflexivity|].
  split.
  { rewrite (get_lp_set w1 l x' Hl1). unfold base. cbn [x_logs x'].
    destruct Hlok as (newer & r0 & s0' & El & Hs & _). pose proof (drop_newer_spec (x_logs x) past Hs) as Hsp. rewrite Hd in Hsp. destruct Hsp as (pre & E & _ & _).
    rewrite E. symmetry. apply last_suffix. discriminate. }
  split; [rewrite (get_lp_set w1 l x' Hl1); reflexivity|].
  split; [cbn [put_lp set_lps k_lps]; rewrite set_nth_length, E1; reflexivity|]. split; [exact U6|]. split; [exact B1|]. split; [exact B4|].
  change (pend (put_lp w1 l x')) with (pend w1). change (k_flags (put_lp w1 l x')) with (k_flags w1). change (k_next (put_lp w1 l x')) with (k_next w1).
  split; [eapply Loc_perm; [exact U1|apply Permutation_refl|apply Permutation_app_head; apply Permutation_sym; exact PP|apply Permutation_sym; exact PM]|].
  split; [intros y; rewrite U2, procs_flat; reflexivity|]. split; [|split; [|exact U5]].
  - intros i. rewrite marks_flat in U3.
    rewrite (Dm_ext _ _ (hand ++ allprocs (k_lps (put_lp w1 l x'))) (hand ++ procs_of (flat gk0) ++ restP) i).
    2:{ intros y. rewrite !in_app_iff. split; (intros [H|H]; [left; exact H|right]); [apply (Permutation_in _ PP) in H|apply (Permutation_in _ (Permutation_sym PP))]; rewrite ?in_app_iff in *; exact H. }
    rewrite U3. rewrite (Dm_ext _ _ (hand ++ allprocs (k_lps w3)) (procs_of (flat gu) ++ hand ++ procs_of (flat gk0) ++ restP) i); [reflexivity|].
    intros y. unfold allprocs. rewrite !in_app_iff. split.
    + intros [H|H]; [tauto|]. apply (Permutation_in _ (split_lp (fun z => procs_of (x_hist z)) (k_lps w3) l Hl)) in H. fold (get_lp w3 l) in H. fold x in H. fold restP in H.
      rewrite Eh, flat_app, procs_app, !in_app_iff in H. tauto.
    + intros H. destruct H as [H|[H|H]]; [right| left; exact H |right];
        apply (Permutation_in _ (Permutation_sym (split_lp (fun z => procs_of (x_hist z)) (k_lps w3) l Hl))); fold (get_lp w3 l); fold x; fold restP;
        rewrite Eh, flat_app, procs_app, !in_app_iff; tauto.
  - intros o Ho. apply U4. apply (Permutation_in _ PM). exact Ho.
Qed.

Lemma fold_left_app_undo a b w : fold_left undo_entry (a ++ b) w = fold_left undo_entry b (fold_left undo_entry a w).
Proof. apply fold_left_app. Qed.

(* the rollback started by the cancellation notice of a processed message: its markers, its annihilation, then the later groups *)
Lemma cancel_sets w3 l gk0 mm m g2 :
  all_ok2 p w3 -> l < length (k_lps w3) -> x_hist (get_lp w3 l) = flat (gk0 ++ (mm, m) :: g2) -> fst (base (get_lp w3 l)) <= length (flat gk0) ->
  Loc (k_gvt w3) (k_flags w3) (pend w3) (allprocs (k_lps w3)) (allmarks (k_lps w3)) (k_next w3) ->
  Mk0 (k_flags w3) (pend w3) (allmarks (k_lps w3)) -> fl (k_flags w3) m = 5%N -> No5 (k_flags w3) (map snd g2) ->
  (forall o, In o (mm ++ flat_map fst g2) -> (k_gvt w3 <= Z.of_N (tm o))%Z) ->
  let w4 := do_rollback p w3 l (length (flat gk0)) in
  x_hist (get_lp w4 l) = flat gk0 /\ (forall i, i <> l -> get_lp w4 i = get_lp w3 i) /\ base (get_lp w4 l) = base (get_lp w3 l) /\
  x_epoch (get_lp w4 l) = x_epoch (get_lp w3 l) /\ length (k_lps w4) = length (k_lps w3) /\ k_next w4 = k_next w3 /\ k_gvt w4 = k_gvt w3 /\ k_epoch w4 = k_epoch w3 /\
  (forall y, Live (k_flags w4) (pend w4) y <-> Live (k_flags w3) (pend w3) y \/ In y (map snd g2)) /\
  (forall i, Dm (k_flags w4) (pend w4) (allprocs (k_lps w4)) i <->
             ((Dm (k_flags w3) (pend w3) (allprocs (k_lps w3)) i \/ In i (map wm_id mm)) /\ i <> wm_id m) \/ In i (map wm_id (flat_map fst g2))) /\
  Mk0 (k_flags w4) (pend w4) (allmarks (k_lps w4)) /\ (forall L, No5 (k_flags w3) L -> No5 (k_flags w4) L).
Proof.
  intros Hok Hl Eh Hb HL M0 Hf5 N5 Hmt. set (x := get_lp w3 l) in *. set (past := length (flat gk0)). set (gu := (mm, m) :: g2) in *.
  assert (Ef : firstn past (x_hist x) = flat gk0) by (unfold past; rewrite Eh, flat_app, firstn_app, firstn_all, Nat.sub_diag, firstn_O, app_nil_r; reflexivity).
  assert (Es : skipn past (x_hist x) = flat gu) by (unfold past; rewrite Eh, flat_app, skipn_app, skipn_all, Nat.sub_diag; reflexivity).
  destruct (get_ok2 p w3 l Hok Hl) as [Hlok _]. fold x in Hlok.
  pose proof (drop_newer_some p H_time x past Hlok Hb) as Hne.
  destruct (drop_newer (x_logs x) past) as [|[ref snap] older] eqn:Hd; [congruence|].
  cbn zeta. rewrite (do_rollback_unfold w3 l past ref snap older Hd). fold x. rewrite Ef, Es.
  set (restP := rest (fun y => procs_of (x_hist y)) (k_lps w3) l). set (restM := rest (fun y => marks_of (x_hist y)) (k_lps w3) l).
  set (prR := procs_of (flat gk0) ++ restP). set (mkR := marks_of (flat gk0) ++ restM).
  assert (PP0 : Permutation (allprocs (k_lps w3)) (procs_of (flat gu) ++ prR)).
  { unfold allprocs. eapply perm_trans; [apply (split_lp (fun y => procs_of (x_hist y)) (k_lps w3) l Hl)|].
    fold (get_lp w3 l). fold x. rewrite Eh, flat_app, procs_app. apply perm_pull2'. }
  assert (PM0 : Permutation (allmarks (k_lps w3)) (marks_of (flat gu) ++ mkR)).
  { unfold allmarks. eapply perm_trans; [apply (split_lp (fun y => marks_of (x_hist y)) (k_lps w3) l Hl)|].
    fold (get_lp w3 l). fold x. rewrite Eh, flat_app, marks_app. apply perm_pull2'. }
  assert (Epg : procs_of (flat gu) = m :: procs_of (flat g2)) by (unfold gu; rewrite !procs_flat; reflexivity).
  assert (Emg : marks_of (flat gu) = mm ++ marks_of (flat g2)) by (unfold gu; rewrite !marks_flat; reflexivity).
  assert (Efg : flat gu = map ESent mm ++ EProc m :: flat g2) by (unfold gu; apply flat_cons).
  (* part A: the markers of the cancelled message *)
  assert (HLA0 : Loc (k_gvt w3) (k_flags w3) (pend w3) (procs_of (map ESent mm) ++ (m :: procs_of (flat g2) ++ prR)) (marks_of (map ESent mm) ++ (marks_of (flat g2) ++ mkR)) (k_next w3)).
  { rewrite procs_map_sent, marks_map_sent. cbn [app]. eapply Loc_perm; [exact HL|apply Permutation_refl| |].
    - rewrite Epg in PP0. exact PP0.
    - rewrite Emg, <- app_assoc in PM0. exact PM0. }
  assert (M0A0 : Mk0 (k_flags w3) (pend w3) (marks_of (map ESent mm) ++ (marks_of (flat g2) ++ mkR))).
  { rewrite marks_map_sent. intros o Ho. apply M0. apply (Permutation_in _ (Permutation_sym PM0)). rewrite Emg, <- app_assoc. exact Ho. }
  destruct (undo_all_sets (k_gvt w3) (map ESent mm) w3 _ _ HLA0 M0A0 ltac:(rewrite procs_map_sent; intros y []) ltac:(intros o Ho; apply Hmt; apply in_or_app; left; apply in_map_iff in Ho; destruct Ho as (z & Ez & Hz); injection Ez as <-; exact Hz)) as (A1 & A2 & A3 & A4 & A5 & A6 & A7). cbn zeta in *.
  set (wA := fold_left undo_entry (map ESent mm) w3) in *.
  rewrite procs_map_sent, marks_map_sent in *. cbn [app] in A3.
  assert (HfA : fl (k_flags wA) m = 5%N).
  { rewrite A7; [exact Hf5| |intros []]. intro Hin. apply in_map_iff in Hin. destruct Hin as (o & Eo & Ho).
    assert (o = m). { apply (l_body _ _ _ _ _ _ HL o m); [rewrite !in_app_iff; right; right; apply (Permutation_in _ (Permutation_sym PM0)); rewrite Emg; rewrite !in_app_iff; tauto|
                       rewrite !in_app_iff; right; left; apply (Permutation_in _ (Permutation_sym PP0)); rewrite Epg; left; reflexivity|exact Eo]. }
    subst o. destruct (l_mk _ _ _ _ _ _ HL m ltac:(apply (Permutation_in _ (Permutation_sym PM0)); rewrite Emg; rewrite !in_app_iff; tauto)) as [H|[H _]]; rewrite Hf5 in H; discriminate. }
  (* part B: the annihilation *)
  assert (HstepB : let wB := undo_entry wA (EProc m) in
            Loc (k_gvt w3) (k_flags wB) (pend wB) (procs_of (flat g2) ++ prR) (marks_of (flat g2) ++ mkR) (k_next wB) /\
            (forall y, Live (k_flags wB) (pend wB) y <-> Live (k_flags wA) (pend wA) y) /\
            (forall i, Dm (k_flags wB) (pend wB) (procs_of (flat g2) ++ prR) i <-> Dm (k_flags wA) (pend wA) (m :: procs_of (flat g2) ++ prR) i /\ i <> wm_id m) /\
            Mk0 (k_flags wB) (pend wB) (marks_of (flat g2) ++ mkR) /\ (forall L, No5 (k_flags wA) L -> No5 (k_flags wB) L) /\ k_next wB = k_next wA /\
            k_lps wB = k_lps wA /\ k_gvt wB = k_gvt wA /\ k_epoch wB = k_epoch wA).
  { destruct (Loc_unproc _ _ _ _ _ _ _ A1) as [[Hf _]|[[Hf _]|[Hf HL']]]; [rewrite HfA in Hf; discriminate|rewrite HfA in Hf; discriminate|].
    cbn zeta. unfold undo_entry, flag_sub. fold (fl (k_flags wA) m). rewrite Hf.
    destruct (unproc5_sets _ _ _ _ _ _ m A1 A4 Hf) as (S1 & S2 & S3 & S4). cbn. repeat (split; [assumption|]). repeat split; reflexivity. }
  cbn zeta in HstepB. destruct HstepB as (B1 & B2 & B3 & B4 & B5 & B6 & B7 & B8 & B9). set (wB := undo_entry wA (EProc m)) in *.
  (* part C: the later groups *)
  assert (N5C : No5 (k_flags wB) (procs_of (flat g2))) by (apply B5; apply A5; rewrite procs_flat; exact N5).
  destruct (undo_all_sets (k_gvt w3) (flat g2) wB _ _ B1 B4 N5C ltac:(intros o Ho; apply Hmt; apply in_or_app; right; rewrite <- marks_flat; apply in_marks; exact Ho)) as (C1 & C2 & C3 & C4 & C5 & C6 & C7). cbn zeta in *.
  assert (Efold : fold_left undo_entry (flat gu) w3 = fold_left undo_entry (flat g2) wB).
  { rewrite Efg. change (map ESent mm ++ EProc m :: flat g2) with (map ESent mm ++ [EProc m] ++ flat g2). rewrite !fold_left_app_undo. reflexivity. }
  rewrite Efold. set (wC := fold_left undo_entry (flat g2) wB) in *.
  assert (E1 : k_lps wC = k_lps w3) by (unfold wC; rewrite undo_all_lps, B7; unfold wA; apply undo_all_lps).
  destruct (undo_all_frame (flat g2) wB) as (F1 & _ & _ & F4 & _ & _). cbn zeta in F1, F4. fold wC in F1, F4.
  destruct (undo_all_frame (map ESent mm) w3) as (G1 & _ & _ & G4 & _ & _). cbn zeta in G1, G4. fold wA in G1, G4.
  assert (Hl1 : l < length (k_lps wC)) by (rewrite E1; exact Hl).
  set (x' := mkLpx (flat gk0) (x_bound x) (replay p snap (sub (flat gk0) ref past)) ((ref, snap) :: older) (x_rem x) (x_epoch x)).
  assert (PP : Permutation (allprocs (k_lps (put_lp wC l x'))) prR).
  { unfold allprocs. cbn [put_lp set_lps k_lps]. rewrite E1. exact (split_lp_set (fun y => procs_of (x_hist y)) (k_lps w3) l x' Hl). }
  assert (PM : Permutation (allmarks (k_lps (put_lp wC l x'))) mkR).
  { unfold allmarks. cbn [put_lp set_lps k_lps]. rewrite E1. exact (split_lp_set (fun y => marks_of (x_hist y)) (k_lps w3) l x' Hl). }
  split; [rewrite (get_lp_set wC l x' Hl1); reflexivity|]. split; [intros i Hi; rewrite (get_put_other wC l x' i Hi); unfold get_lp; rewrite E1; reflexivity|].
  split.
  { rewrite (get_lp_set wC l x' Hl1). unfold base. cbn [x_logs x'].
    destruct Hlok as (newer & r0 & s0' & El & Hs & _). pose proof (drop_newer_spec (x_logs x) past Hs) as Hsp. rewrite Hd in Hsp. destruct Hsp as (pre & E & _ & _).
    rewrite E. symmetry. apply last_suffix. discriminate. }
  split; [rewrite (get_lp_set wC l x' Hl1); reflexivity|].
  split; [cbn [put_lp set_lps k_lps]; rewrite set_nth_length, E1; reflexivity|].
  change (k_next (put_lp wC l x')) with (k_next wC). change (k_gvt (put_lp wC l x')) with (k_gvt wC). change (k_epoch (put_lp wC l x')) with (k_epoch wC).
  split; [rewrite <- A6, <- B6; exact C6|]. split; [rewrite F1, B8; exact G1|]. split; [rewrite F4, B9; exact G4|].
  change (pend (put_lp wC l x')) with (pend wC). change (k_flags (put_lp wC l x')) with (k_flags wC).
  split; [intros y; rewrite C2, B2, A2, procs_flat; cbn [In]; tauto|]. split; [|split].
  - intros i. rewrite (Dm_ext _ _ (allprocs (k_lps (put_lp wC l x'))) prR i) by (intros y; split; intros H; [apply (Permutation_in _ PP H)|apply (Permutation_in _ (Permutation_sym PP) H)]).
    rewrite C3, B3, A3, marks_flat.
    rewrite (Dm_ext _ _ (allprocs (k_lps w3)) (m :: procs_of (flat g2) ++ prR) i); [reflexivity|].
    intros y. change (m :: procs_of (flat g2) ++ prR) with ((m :: procs_of (flat g2)) ++ prR). rewrite <- Epg. split; intros H; [apply (Permutation_in _ PP0 H)|apply (Permutation_in _ (Permutation_sym PP0) H)].
  - intros o Ho. apply C4. apply (Permutation_in _ PM). exact Ho.
  - intros L0 H. apply C5. apply B5. apply A5. exact H.
Qed.

Lemma in_allprocs_iff w y : In y (allprocs (k_lps w)) <-> exists i, i < length (k_lps w) /\ In (EProc y) (x_hist (get_lp w i)).
Proof.
  split; [apply in_allprocs|]. intros (i & Hi & H). unfold allprocs. apply in_flat_map. exists (get_lp w i). split; [unfold get_lp; apply nth_In; exact Hi|apply in_procs; exact H].
Qed.
Lemma in_allmarks_iff w y : In y (allmarks (k_lps w)) <-> exists i, i < length (k_lps w) /\ In (ESent y) (x_hist (get_lp w i)).
Proof.
  unfold allmarks. rewrite in_flat_map. split.
  - intros (x0 & Hx & Hm). destruct (In_nth _ _ lpx_dummy Hx) as (i & Hi & E). exists i. split; [exact Hi|]. unfold get_lp. rewrite E. apply in_marks. exact Hm.
  - intros (i & Hi & H). exists (get_lp w i). split; [unfold get_lp; apply nth_In; exact Hi|apply in_marks; exact H].
Qed.
Lemma bnd_flat_prefix a b : bnd (flat (a ++ b)) (length (flat a)).
Proof.
  destruct a as [|g0 a0] using rev_ind; [left; reflexivity|right]. exists (snd g0). rewrite flat_app.
  assert (Hpos : 0 < length (flat (a0 ++ [g0]))) by (rewrite flat_app, app_length; unfold flat at 2; cbn [flat_map]; unfold flat1; rewrite !app_length; cbn; lia).
  rewrite nth_error_app1 by lia. apply flat_last.
Qed.
Lemma skipn_flat_init ms im gk : skipn (S (length ms)) (flat ((ms, im) :: gk)) = flat gk.
Proof.
  rewrite flat_cons. replace (S (length ms)) with (length (map ESent ms ++ [EProc im])) by (rewrite app_length, map_length; cbn; lia).
  change (map ESent ms ++ EProc im :: flat gk) with (map ESent ms ++ [EProc im] ++ flat gk). rewrite app_assoc, skipn_app, skipn_all, Nat.sub_diag. reflexivity.
Qed.

(* ---------- an ordinary message, possibly a straggler: abstract step s_process ---------- *)
Lemma flat_cons_cut ms im gs k : bnd (flat ((ms, im) :: gs)) k -> k <= length (flat ((ms, im) :: gs)) -> S (length ms) <= k ->
  exists gk gu, gs = gk ++ gu /\ k = length (flat ((ms, im) :: gk)).
Proof.
  intros Hb Hk Hge. destruct (flat_cut ((ms, im) :: gs) k Hb Hk) as (gk0 & gu & E & E1 & E2).
  destruct gk0 as [|g0 gk].
  - exfalso. assert (Hl : length (firstn k (flat ((ms, im) :: gs))) = 0) by (rewrite E1; reflexivity).
    rewrite firstn_length_le in Hl by exact Hk. lia.
  - cbn [app] in E. injection E as E0 E. subst g0. exists gk, gu. split; [exact E|]. assert (Hl : length (firstn k (flat ((ms, im) :: gs))) = length (flat ((ms, im) :: gk))) by (rewrite E1; reflexivity).
    rewrite firstn_length_le in Hl by exact Hk. exact Hl.
Qed.

Lemma skipn_flat_app (a b : list group) : skipn (length (flat a)) (flat (a ++ b)) = flat b.
Proof. rewrite flat_app, skipn_app, skipn_all, Nat.sub_diag. reflexivity. Qed.

Lemma app_assoc4 {A} (a b c d : list A) : a ++ (b ++ c) ++ d = ((a ++ b) ++ c) ++ d.
Proof. rewrite !app_assoc. reflexivity. Qed.
Lemma flat_snoc_pos2 (a b : list group) g : 0 < length (flat (a ++ b ++ [g])).
Proof. rewrite !flat_app, !app_length. unfold flat at 3. cbn [flat_map]. unfold flat1. rewrite !app_length. cbn. lia. Qed.
Lemma nth_flat_last (a : list group) g b : nth_error (flat ((a ++ [g]) ++ b)) (pred (length (flat (a ++ [g])))) = Some (EProc (snd g)).
Proof.
  rewrite (flat_app (a ++ [g]) b). rewrite nth_error_app1; [apply flat_last|]. pose proof (flat_snoc_pos2 [] a g) as H. cbn [app] in H. lia.
Qed.

Lemma flat_g0_cut g0 gs k : (g0 = [] \/ exists ms im, g0 = [(ms, im)]) -> bnd (flat (g0 ++ gs)) k -> k <= length (flat (g0 ++ gs)) ->
  length (flat g0) <= k -> exists gk gu : list group, gs = gk ++ gu /\ k = length (flat (g0 ++ gk)).
Proof.
  intros [->|(ms & im & ->)] Hb Hk Hge.
  - cbn [app] in *. destruct (flat_cut gs k Hb Hk) as (gk & gu & E & E1 & _). exists gk, gu. split; [exact E|].
    assert (Hl : length (firstn k (flat gs)) = length (flat gk)) by (rewrite E1; reflexivity). rewrite firstn_length_le in Hl by exact Hk. exact Hl.
  - cbn [app] in *. apply (flat_cons_cut ms im gs k Hb Hk). rewrite flat_cons in Hge. rewrite app_length, map_length in Hge. cbn in Hge. lia.
Qed.

Lemma cltb_time_false c1 c2 : (c_t c2 < c_t c1)%N -> cltb c1 c2 = false.
Proof.
  intros H. destruct (cltb c1 c2) eqn:E; [|reflexivity]. exfalso. apply (clt_not_tlt c1 c2 E). unfold Abs.tlt, tltb. apply N.ltb_lt. exact H.
Qed.

Lemma nodup_map_inj {A B} (f : A -> B) (l : list A) x y : NoDup (map f l) -> In x l -> In y l -> f x = f y -> x = y.
Proof.
  induction l as [|h t IH]; intros Hnd Hx Hy E; [destruct Hx|]. cbn [map] in Hnd. inversion Hnd as [|? ? Hh Ht]; subst.
  destruct Hx as [<-|Hx], Hy as [<-|Hy]; [reflexivity| | |apply IH; assumption].
  - exfalso. apply Hh. rewrite E. apply in_map. exact Hy.
  - exfalso. apply Hh. rewrite <- E. apply in_map. exact Hx.
Qed.

(* a released (ghost) message is never among the outputs of an undone group: those lie at or above the GVT *)
Lemma ghost_not_marked a i gy l' (hl : list (Abs.entry cont)) o : aInv a -> i < n -> l' < n -> In (ent gy) (Abs.hist cont a i) ->
  (forall e, In e hl -> In e (Abs.hist cont a l')) -> In (amsg o) (flat_map (Abs.eouts cont) hl) ->
  Abs.mid cont (amsg (snd gy)) = Abs.mid cont (amsg o) -> snd gy = o.
Proof.
  intros I Hi Hl' Hy Hsub Ho E. apply amsg_inj.
  apply (nodup_map_inj (Abs.mid cont) (Abs.placed cont n a) _ _ (Abs.i_nd_placed cont n init0 a I)); [| |exact E].
  - unfold Abs.placed, Abs.hist_msgs. apply in_or_app. right. apply in_flat_map. exists i. split; [apply in_seq; lia|].
    apply in_map_iff. exists (ent gy). split; [reflexivity|exact Hy].
  - apply (Abs.i_sent_placed cont n init0 a I). unfold Abs.sent. apply in_or_app. right. apply in_flat_map. exists l'. split; [apply in_seq; lia|].
    apply in_flat_map in Ho. destruct Ho as (e & He & Ho). apply in_flat_map. exists e. split; [apply Hsub; exact He|exact Ho].
Qed.

Lemma sim_process w a w1 m : R w a -> Permutation (pend w) (m :: pend w1) ->
  k_flags w1 = k_flags w -> k_next w1 = k_next w -> k_gvt w1 = k_gvt w -> k_lps w1 = k_lps w -> k_err w1 = k_err w ->
  good w1 -> fl (k_flags w) m = 0%N ->
  let l := N.to_nat (e_dest (wm_ev m)) in
  let w3 := set_flags w1 (flag_set (k_flags w1) (wm_id m) 2) in
  let x := get_lp w3 l in
  let strag := match last_proc (x_hist x) with Some lastm => (Z.of_N (e_t (wm_ev m)) <=? x_bound x)%Z && wbefore (k_flags w3) m lastm | None => false end in
  let w4 := if strag then do_rollback p w3 l (straggler_index (k_flags w3) m (x_hist x)) else w3 in
  let w' := forward p ck w4 l m in
  full p w' -> exists a', astep a a' /\ R w' a'.
Proof.
  intros Hr Hperm Ef En Eg El Eerr G1 Hfm l w3 x strag w4 w' F'.
  pose proof Hr as [F Hlen M0 N5 Hre Hh Hp Ha Hn].
  pose proof (once_loc w F) as L.
  assert (HL1 : Loc (k_gvt w) (k_flags w) (m :: pend w1) (allprocs (k_lps w)) (allmarks (k_lps w)) (k_next w)) by (eapply Loc_perm; [exact L|exact Hperm|apply Permutation_refl|apply Permutation_refl]).
  assert (Hmin : In m (pend w)) by (apply (Permutation_in _ (Permutation_sym Hperm)); left; reflexivity).
  destruct (f_extra p w F) as [Hxp Hxl]. destruct (Hxp m Hmin) as [Hty Hdl]. fold l in Hdl. rewrite Hlen in Hdl.
  assert (Hgm : (k_gvt w <= Z.of_N (tm m))%Z) by (apply (s_pend w (f_good p w F) m Hmin)).
  destruct (nodup_cons_id m (pend w1) (l_nd_pd _ _ _ _ _ _ HL1)) as [Hnm1 _].
  assert (Hnpr : ~ In m (allprocs (k_lps w))).
  { destruct (l_pd _ _ _ _ _ _ L m Hmin) as [[H _]|[_ H]]; [rewrite Hfm in H; discriminate|exact H]. }
  assert (Hid : forall y, In y (pend w ++ allprocs (k_lps w) ++ allmarks (k_lps w)) -> wm_id y = wm_id m -> y = m).
  { intros y Hy E. apply (same_id w y m F Hy); [apply in_or_app; left; exact Hmin|exact E]. }
  assert (Hl3 : l < length (k_lps w3)) by (change (k_lps w3) with (k_lps w1); rewrite El, Hlen; exact Hdl).
  set (f3 := flag_set (k_flags w1) (wm_id m) 2).
  assert (Hfl : forall y, wm_id y <> wm_id m -> fl f3 y = fl (k_flags w) y) by (intros y Hy; unfold f3; rewrite Ef; apply fl_set_other; exact Hy).
  assert (Hf3m : fl f3 m = 2%N) by (unfold f3; apply fl_set_same).
  pose proof (Loc_extract0 _ _ _ _ _ _ _ HL1 Hfm) as HL3. rewrite <- Ef in HL3. fold f3 in HL3.
  assert (Ok3 : all_ok2 p w3) by (unfold all_ok2; change (k_lps w3) with (k_lps w1); rewrite El; exact (f_ok p w F)).
  assert (G3 : good w3) by (apply set_flags_good; exact G1).
  assert (Eg3 : k_gvt w3 = k_gvt w) by (change (k_gvt w3) with (k_gvt w1); exact Eg).
  (* the history of LP l, grouped *)
  destruct (Hh l Hdl) as (g0 & gdone & gs & Ehist & Ebase & Eah & Hghost & Hshape).
  assert (Hshape' : g0 = [] \/ exists ms im, g0 = [(ms, im)]) by (destruct Hshape as [(ms & im & E & _)|E]; [right; exists ms, im; exact E|left; exact E]).
  assert (Ex : x = get_lp w l) by (unfold x, get_lp; change (k_lps w3) with (k_lps w1); rewrite El; reflexivity).
  rewrite <- Ex in Ehist, Ebase.
  destruct (get_ok2 p w3 l Ok3 Hl3) as [Hlok Hlwf]. fold x in Hlok, Hlwf.
  assert (Hpin : forall g, In g gs -> In (snd g) (allprocs (k_lps w))).
  { intros g Hgg. apply in_allprocs_iff. exists l. split; [rewrite Hlen; exact Hdl|]. rewrite <- Ex, Ehist. apply in_procs. rewrite procs_flat, map_app. apply in_or_app. right. apply in_map. exact Hgg. }
  assert (Hdb : forall g, In g gs -> Abs.dbefore cont cltb tltb a (amsg m) (ent g) = wbefore f3 m (snd g)).
  { intros g Hgg. apply (dbefore_wbefore w a m (snd g) f3 Hr (Hpin g Hgg) Hfl); [|exact Hf3m].
    intro E. apply Hnpr. rewrite <- (Hid (snd g) ltac:(rewrite !in_app_iff; right; left; apply Hpin; exact Hgg) E). apply Hpin. exact Hgg. }
  assert (Hdbg : forall g, In g gdone -> Abs.dbefore cont cltb tltb a (amsg m) (ent g) = false).
  { intros g Hgg. destruct (Hghost g Hgg) as [Ht Hd]. unfold Abs.dbefore. cbn [ent Abs.em snd]. rewrite Hd. cbn [amsg Abs.mc]. apply cltb_time_false.
    unfold cont_of, c_t. cbn [fst]. unfold tm in *. lia. }
  (* where the history is cut *)
  assert (Hcut : exists gk gu, gs = gk ++ gu /\
            (forall g, In g gu -> wbefore f3 m (snd g) = true) /\ (gk = [] \/ exists gk' g, gk = gk' ++ [g] /\ wbefore f3 m (snd g) = false) /\
            w4 = (if strag then do_rollback p w3 l (length (flat (g0 ++ gk))) else w3) /\ (strag = false -> gu = []) /\
            (forall o, In o (flat_map fst gu) -> (k_gvt w3 <= Z.of_N (tm o))%Z)).
  { destruct strag eqn:Es.
    - unfold strag in Es. destruct (last_proc (x_hist x)) as [lastm|] eqn:Elast; [|discriminate]. apply andb_true_iff in Es. destruct Es as [_ Ew].
      change (k_flags w3) with f3 in Ew.
      destruct (straggler_index_spec f3 m (x_hist x) lastm Elast Ew) as [Habove Hstop]. cbn zeta in Habove, Hstop.
      destruct (straggler_index_bnd f3 m (x_hist x)) as [Hbnd Hkle].
      assert (Hbase : lp_base x) by (rewrite Ex; apply (Hxl l ltac:(rewrite Hlen; exact Hdl))).
      pose proof (straggler_ge_base p f3 m x lastm Hlok Hbase Hf3m Hty Elast Ew) as Hbk. rewrite Ebase in Hbk. cbn [fst] in Hbk.
      set (k := straggler_index f3 m (x_hist x)) in *.
      assert (Hund : forall o, In (ESent o) (skipn k (x_hist x)) -> (tm m <= tm o)%N).
      { apply (undone_ge p H_time x k (tm m) (conj Hlok Hlwf) Hbnd); [rewrite Ebase; exact Hbk|exact Hkle|].
        intros y Hy. apply (wbefore_le f3). apply Habove. exact Hy. }
      rewrite Ehist in Hbnd, Hkle.
      destruct (flat_g0_cut g0 gs k Hshape' Hbnd Hkle Hbk) as (gk & gu & Egs & Ek).
      assert (Eskip : skipn k (x_hist x) = flat gu).
      { rewrite Ehist, Egs, Ek, app_assoc. apply skipn_flat_app. }
      exists gk, gu. split; [exact Egs|]. split; [|split; [|split; [unfold w4; change (k_flags w3) with f3; fold k; rewrite Ek; reflexivity|split; [discriminate|]]]].
      + intros g Hgg. apply Habove. fold k. rewrite Eskip. apply in_procs. rewrite procs_flat. apply in_map. exact Hgg.
      + destruct gk as [|gl gk0] using rev_ind; [left; reflexivity|right]. exists gk0, gl. split; [reflexivity|].
        destruct Hstop as [Hk0|(e & Hne & Hwe)].
        { exfalso. fold k in Hk0. rewrite Hk0 in Ek. pose proof (flat_snoc_pos2 g0 gk0 gl) as H. apply (Nat.lt_irrefl 0). eapply Nat.lt_le_trans; [exact H|]. apply Nat.eq_le_incl. symmetry. exact Ek. }
        assert (Ee' : e = snd gl).
        { fold k in Hne. assert (Ex2 : x_hist x = flat (((g0 ++ gk0) ++ [gl]) ++ gu)) by (rewrite Ehist, Egs; f_equal; apply app_assoc4).
          assert (Ek2 : k = length (flat ((g0 ++ gk0) ++ [gl]))) by (rewrite Ek; f_equal; f_equal; apply app_assoc).
          rewrite Ex2, Ek2, nth_flat_last in Hne. injection Hne as <-. reflexivity. }
        rewrite <- Ee'. exact Hwe.
      + intros o Ho. rewrite Eg3. specialize (Hund o ltac:(rewrite Eskip; apply in_marks; rewrite marks_flat; exact Ho)). lia.
    - exists gs, []. rewrite app_nil_r. split; [reflexivity|]. split; [intros g []|]. split; [|split; [reflexivity|split; [reflexivity|intros o []]]].
      destruct gs as [|gl gs0] using rev_ind; [left; reflexivity|right]. exists gs0, gl. split; [reflexivity|].
      assert (Elast : last_proc (x_hist x) = Some (snd gl)).
      { unfold last_proc. rewrite Ehist, app_assoc, flat_app, rev_app_distr. unfold flat at 1. cbn [flat_map]. rewrite app_nil_r. unfold flat1. rewrite rev_app_distr. reflexivity. }
      unfold strag in Es. rewrite Elast in Es. apply andb_false_iff in Es. change (k_flags w3) with f3 in Es. destruct Es as [Eb|Ew]; [|exact Ew].
      apply Z.leb_gt in Eb. destruct (get_time w3 l G3 Hl3) as [_ Hbound]. fold x in Hbound.
      specialize (Hbound (tm (snd gl))). destruct (wbefore f3 m (snd gl)) eqn:Ew; [|reflexivity]. apply wbefore_le in Ew. exfalso.
      assert (Hin : In (tm (snd gl)) (ptimes (x_hist x))) by (apply ptimes_in; apply in_procs; rewrite Ehist, procs_flat, !map_app; apply in_or_app; right; apply in_or_app; right; left; reflexivity).
      specialize (Hbound Hin). unfold tm in *. lia. }
  destruct Hcut as (gk & gu & Egs & Hgu & Hgk & Ew4 & Hnos & Hmt).
  subst gs.
  assert (Ekeep : Abs.keep_of (Abs.dbefore cont cltb tltb a (amsg m)) (map ent (gdone ++ gk ++ gu)) = map ent (gdone ++ gk) /\
                  Abs.undo_of (Abs.dbefore cont cltb tltb a (amsg m)) (map ent (gdone ++ gk ++ gu)) = map ent gu).
  { rewrite (app_assoc gdone gk gu), (map_app ent (gdone ++ gk) gu). apply keep_of_unique.
    - intros e He. apply in_map_iff in He. destruct He as (g & <- & Hgg). rewrite Hdb by (apply in_or_app; right; exact Hgg). apply Hgu. exact Hgg.
    - destruct Hgk as [->|(gk' & g & -> & Hg)].
      + rewrite app_nil_r. destruct gdone as [|gl gd0] using rev_ind; [left; reflexivity|right]. exists (map ent gd0), (ent gl). rewrite map_app. split; [reflexivity|].
        apply Hdbg. apply in_or_app. right. left. reflexivity.
      + right. exists (map ent (gdone ++ gk')), (ent g). rewrite app_assoc, map_app. split; [reflexivity|].
        rewrite Hdb by (apply in_or_app; left; apply in_or_app; right; left; reflexivity). exact Hg. }
  destruct Ekeep as [Ekeep Eundo].
  (* facts about the state before the undo *)
  assert (M03 : Mk0 f3 (pend w3) (allmarks (k_lps w3))).
  { change (k_lps w3) with (k_lps w1). change (pend w3) with (pend w1). rewrite El. intros o Ho Hfo. destruct (Pos.eq_dec (wm_id o) (wm_id m)) as [E|E].
    - rewrite (Hid o ltac:(rewrite !in_app_iff; tauto) E), Hf3m in Hfo. discriminate.
    - rewrite (Hfl o E) in Hfo. pose proof (M0 o Ho Hfo) as Hop. apply (Permutation_in _ Hperm) in Hop. destruct Hop as [<-|Hop]; [congruence|exact Hop]. }
  assert (N53 : No5 f3 (allprocs (k_lps w))).
  { intros y Hy. destruct (Pos.eq_dec (wm_id y) (wm_id m)) as [E|E]; [rewrite (Hid y ltac:(rewrite !in_app_iff; tauto) E), Hf3m; discriminate|]. rewrite (Hfl y E). apply N5. exact Hy. }
  assert (HL3' : Loc (k_gvt w3) (k_flags w3) (pend w3) ([m] ++ allprocs (k_lps w3)) (allmarks (k_lps w3)) (k_next w3)).
  { change (k_flags w3) with f3. change (pend w3) with (pend w1). change (k_lps w3) with (k_lps w1). change (k_next w3) with (k_next w1). rewrite Eg3, El, En. exact HL3. }
  assert (H4 : x_hist (get_lp w4 l) = flat (g0 ++ gk) /\ (forall i, i <> l -> get_lp w4 i = get_lp w3 i) /\ base (get_lp w4 l) = base x /\
               x_epoch (get_lp w4 l) = x_epoch x /\ length (k_lps w4) = length (k_lps w3) /\ k_next w4 = k_next w3 /\ k_gvt w4 = k_gvt w3 /\ k_epoch w4 = k_epoch w3 /\
               Loc (k_gvt w3) (k_flags w4) (pend w4) ([m] ++ allprocs (k_lps w4)) (allmarks (k_lps w4)) (k_next w4) /\
               (forall y, Live (k_flags w4) (pend w4) y <-> Live f3 (pend w3) y \/ In y (map snd gu)) /\
               (forall i, Dm (k_flags w4) (pend w4) ([m] ++ allprocs (k_lps w4)) i <-> Dm f3 (pend w3) ([m] ++ allprocs (k_lps w3)) i \/ In i (map wm_id (flat_map fst gu))) /\
               Mk0 (k_flags w4) (pend w4) (allmarks (k_lps w4)) /\ (forall L0, No5 f3 L0 -> No5 (k_flags w4) L0) /\ all_ok2 p w4).
  { rewrite Ew4. destruct strag.
    - rewrite (app_assoc g0 gk gu) in Ehist.
      destruct (rollback_sets w3 l [m] (g0 ++ gk) gu Ok3 Hl3 Ehist) as (Q1 & Q2 & Q3 & Q4 & Q5 & Q6 & Q7 & Q8 & Q9 & Q10 & Q11 & Q12 & Q13).
      + fold x. rewrite Ebase. cbn [fst]. rewrite flat_app, app_length. lia.
      + exact HL3'.
      + exact M03.
      + intros y Hy. apply N53. apply in_map_iff in Hy. destruct Hy as (g & <- & Hgg). apply Hpin. apply in_or_app. right. exact Hgg.
      + exact Hmt.
      + cbn zeta in *. repeat (split; [assumption|]). apply do_rollback_ok2; [exact Ok3|]. intros _. fold x. rewrite Ehist. apply bnd_flat_prefix.
    - rewrite (Hnos eq_refl) in *. rewrite app_nil_r in Ehist. split; [exact Ehist|]. split; [reflexivity|]. do 6 (split; [reflexivity|]).
      split; [exact HL3'|]. split; [intros y; cbn [map In]; tauto|]. split; [intros i; cbn [flat_map map In]; tauto|]. split; [exact M03|]. split; [intros L0 H; exact H|exact Ok3]. }
  destruct H4 as (Q1 & Q2 & Q3 & Q4 & Q5 & Q6 & Q7 & Q8 & Q9 & Q10 & Q11 & Q12 & Q13 & Ok4).
  rewrite Eg3 in Q9.
  assert (Hl4 : l < length (k_lps w4)) by (rewrite Q5; exact Hl3).
  destruct (get_ok2 p w4 l Ok4 Hl4) as [Hlok4 _].
  (* the state the handler runs on is the replay of the kept history: the abstract machine's state *)
  assert (Hdest : forall g, In g (gk ++ gu) -> e_dest (wm_ev (snd g)) = N.of_nat l).
  { intros g Hgg. destruct (Hxl l ltac:(rewrite Hlen; exact Hdl)) as (_ & _ & Hd & _). rewrite <- (Hd (snd g)); [rewrite N2Nat.id; reflexivity|].
    rewrite <- Ex, Ehist. apply in_procs. rewrite procs_flat, map_app. apply in_or_app. right. apply in_map. exact Hgg. }
  assert (Hdm : e_dest (wm_ev m) = N.of_nat l) by (unfold l; rewrite N2Nat.id; reflexivity).
  assert (Est : x_st (get_lp w4 l) = Abs.stof cont lpstate (AppAbs.s0 p) (ahandle p) l (map ent (gdone ++ gk))).
  { destruct Hlok4 as (newer & r0 & s0' & El4 & _ & _ & Hst). pose proof (base_eq (get_lp w4 l) newer r0 s0' El4) as Eb4. rewrite Q3, Ebase in Eb4.
    injection Eb4 as <- <-. rewrite Hst, Q1, flat_app, skipn_app, skipn_all, Nat.sub_diag. cbn [skipn app]. rewrite replay_flat.
    unfold stofg, Abs.stof. rewrite map_app, fold_left_app. symmetry. apply stof_flat; [exact Hdl|].
    intros g Hgg. apply Hdest. apply in_or_app. left. exact Hgg. }
  destruct (forward_exact w4 l m Hl4 Hlok4) as (W1 & W2 & W3 & W4 & W5 & W6 & W7 & W8 & W9 & W10 & W11). cbn zeta in *. fold w' in W1, W2, W3, W4, W5, W6, W7, W8, W9, W10, W11.
  set (outs := snd (handle p (wm_ev m) (x_st (get_lp w4 l)))) in *. set (news := mknews (k_next w4) outs) in *.
  assert (Enx4 : k_next w4 = k_next w) by (rewrite Q6; change (k_next w3) with (k_next w1); exact En).
  (* the abstract step *)
  pose proof (reach_Inv a Hre) as I.
  assert (Hpm : In (amsg m) (Abs.pool cont a)) by (apply Hp; exists m; split; [split; [exact Hmin|left; exact Hfm]|reflexivity]).
  assert (Hnd : Abs.doomedb cont a (amsg m) = false).
  { destruct (Abs.doomedb cont a (amsg m)) eqn:Ed; [|reflexivity]. exfalso. apply (Abs.doomedb_true cont) in Ed. apply Ha in Ed.
    destruct Ed as (j & (y & Ey & H) & Ej). cbn [amsg Abs.mid] in Ej. apply Pos2Nat.inj in Ej. rewrite <- Ej in Ey.
    assert (Efl : fl (k_flags w) y = 0%N) by (unfold fl; rewrite Ey; exact Hfm).
    destruct H as [[_ H]|[_ [H|H]]]; rewrite Efl in H; discriminate. }
  pose proof (Abs.s_process cont cltb tltb lpstate n (AppAbs.s0 p) (ahandle p) a l (amsg m) Hdl Hpm eq_refl Hnd) as Hstep. cbn zeta in Hstep.
  rewrite Eah in Hstep.
  set (K := Abs.keep_of _ _) in Hstep. assert (EK : K = map ent (gdone ++ gk)) by (unfold K; exact Ekeep). clearbody K. subst K.
  set (U := Abs.undo_of _ _) in Hstep. assert (EU : U = map ent gu) by (unfold U; exact Eundo). clearbody U. subst U.
  cbn [amsg Abs.mc] in Hstep.
  rewrite <- Est in Hstep. rewrite (ahandle_eq p l _ (wm_ev m) Hdl Hdm) in Hstep. cbn [snd] in Hstep. fold outs in Hstep.
  rewrite Hn, <- Enx4, (number_mknews l outs (k_next w4)) in Hstep. fold news in Hstep.
  eexists. split; [exact Hstep|].
  (* bookkeeping shared by several fields *)
  assert (Hnews_id : forall z y, In z news -> In y (pend w4 ++ ([m] ++ allprocs (k_lps w4)) ++ allmarks (k_lps w4)) -> wm_id z <> wm_id y).
  { intros z y Hz Hy E. apply (mknews_ids_ge outs (k_next w4) z) in Hz. pose proof (l_lt _ _ _ _ _ _ Q9 y Hy) as Hlt. rewrite E in Hz.
    exact (Pos.lt_irrefl _ (Pos.lt_le_trans _ _ _ Hlt Hz)). }
  assert (Hfl' : forall y, In y (pend w4 ++ ([m] ++ allprocs (k_lps w4)) ++ allmarks (k_lps w4)) -> fl (k_flags w') y = fl (k_flags w4) y).
  { intros y Hy. apply W11. intros z Hz. apply (Hnews_id z y Hz Hy). }
  assert (Hhist' : x_hist (get_lp w' l) = flat (g0 ++ gk ++ [(news, m)])).
  { rewrite W1, Q1. rewrite (app_assoc g0 gk), (flat_app (g0 ++ gk)). unfold flat at 3. cbn [flat_map]. rewrite app_nil_r. reflexivity. }
  assert (Hlen' : length (k_lps w') = length (k_lps w)) by (rewrite W5, Q5; change (k_lps w3) with (k_lps w1); rewrite El; reflexivity).
  assert (Hget : forall i, i <> l -> get_lp w' i = get_lp w i).
  { intros i Hi. rewrite (W2 i Hi), (Q2 i Hi). unfold get_lp. change (k_lps w3) with (k_lps w1). rewrite El. reflexivity. }
  assert (Hprocs' : forall y, In y (allprocs (k_lps w')) <-> y = m \/ In y (allprocs (k_lps w4))).
  { intros y. rewrite !in_allprocs_iff. rewrite W5. split.
    - intros (i & Hi & H). destruct (Nat.eq_dec i l) as [->|Hne].
      + rewrite W1 in H. apply in_app_or in H. destruct H as [H|H]; [right; exists l; split; assumption|].
        apply in_app_or in H. destruct H as [H|[H|[]]]; [apply in_map_iff in H; destruct H as (z & Hz & _); discriminate|left; injection H as <-; reflexivity].
      + right. exists i. split; [exact Hi|]. rewrite <- (W2 i Hne). exact H.
    - intros [->|(i & Hi & H)].
      + exists l. split; [exact Hl4|]. rewrite W1. apply in_or_app. right. apply in_or_app. right. left. reflexivity.
      + exists i. split; [exact Hi|]. destruct (Nat.eq_dec i l) as [->|Hne]; [rewrite W1; apply in_or_app; left; exact H|rewrite (W2 i Hne); exact H]. }
  assert (Hmarks' : forall y, In y (allmarks (k_lps w')) <-> In y news \/ In y (allmarks (k_lps w4))).
  { intros y. rewrite !in_allmarks_iff. rewrite W5. split.
    - intros (i & Hi & H). destruct (Nat.eq_dec i l) as [->|Hne].
      + rewrite W1 in H. apply in_app_or in H. destruct H as [H|H]; [right; exists l; split; assumption|].
        apply in_app_or in H. destruct H as [H|[H|[]]]; [|discriminate]. apply in_map_iff in H. destruct H as (z & Hz & Hin). injection Hz as ->. left. exact Hin.
      + right. exists i. split; [exact Hi|]. rewrite <- (W2 i Hne). exact H.
    - intros [H|(i & Hi & H)].
      + exists l. split; [exact Hl4|]. rewrite W1. apply in_or_app. right. apply in_or_app. left. apply in_map. exact H.
      + exists i. split; [exact Hi|]. destruct (Nat.eq_dec i l) as [->|Hne]; [rewrite W1; apply in_or_app; left; exact H|rewrite (W2 i Hne); exact H]. }
  assert (Hpend' : forall y, In y (pend w') <-> In y news \/ In y (pend w4)) by (intros y; rewrite W9, in_app_iff, <- in_rev; reflexivity).
  (* the worker-side sets after the whole step, in terms of the state before it *)
  assert (HLive3 : forall y, Live f3 (pend w3) y <-> Live (k_flags w) (pend w) y /\ wm_id y <> wm_id m).
  { intros y. unfold Live. change (pend w3) with (pend w1). split.
    - intros [Hy Hfy]. assert (Hyw : In y (pend w)) by (apply (Permutation_in _ (Permutation_sym Hperm)); right; exact Hy).
      assert (Hyall : In y (pend w ++ allprocs (k_lps w) ++ allmarks (k_lps w))) by (apply in_or_app; left; exact Hyw).
      assert (Hne : wm_id y <> wm_id m) by (intro E0; apply Hnm1; rewrite <- (Hid y Hyall E0); exact Hy).
      rewrite (Hfl y Hne) in Hfy. repeat split; assumption.
    - intros [[Hy Hfy] Hne]. rewrite (Hfl y Hne). split; [|exact Hfy]. apply (Permutation_in _ Hperm) in Hy. destruct Hy as [<-|Hy]; [congruence|exact Hy]. }
  assert (HDm3 : forall i, Dm f3 (pend w3) ([m] ++ allprocs (k_lps w3)) i <-> Dm (k_flags w) (pend w) (allprocs (k_lps w)) i).
  { intros i. unfold Dm. change (pend w3) with (pend w1). change (k_lps w3) with (k_lps w1). rewrite El. split.
    - intros (y & Ey & H). destruct (Pos.eq_dec (wm_id y) (wm_id m)) as [E|E].
      + exfalso. assert (Efl : fl f3 y = 2%N) by (unfold fl in *; rewrite E; exact Hf3m). destruct H as [[_ H]|[_ [H|H]]]; rewrite Efl in H; discriminate.
      + exists y. split; [exact Ey|]. rewrite (Hfl y E) in H. destruct H as [[Hy Hfy]|[[<-|Hy] Hfy]]; [left; split; [apply (Permutation_in _ (Permutation_sym Hperm)); right; exact Hy|exact Hfy]|congruence|right; split; assumption].
    - intros (y & Ey & H). assert (E : wm_id y <> wm_id m).
      { intro E. assert (Efl : fl (k_flags w) y = 0%N) by (unfold fl in *; rewrite E; exact Hfm). destruct H as [[_ H]|[_ [H|H]]]; rewrite Efl in H; discriminate. }
      exists y. split; [exact Ey|]. rewrite (Hfl y E). destruct H as [[Hy Hfy]|[Hy Hfy]]; [left; split; [|exact Hfy]|right; split; [right; exact Hy|exact Hfy]].
      apply (Permutation_in _ Hperm) in Hy. destruct Hy as [<-|Hy]; [congruence|exact Hy]. }
  assert (HLive' : forall y, Live (k_flags w') (pend w') y <-> Live (k_flags w4) (pend w4) y \/ In y news).
  { intros y. unfold Live. rewrite Hpend'. split.
    - intros [[Hy|Hy] Hfy]; [right; exact Hy|left]. rewrite (Hfl' y ltac:(apply in_or_app; left; exact Hy)) in Hfy. split; assumption.
    - intros [[Hy Hfy]|Hy]; [split; [right; exact Hy|rewrite (Hfl' y ltac:(apply in_or_app; left; exact Hy)); exact Hfy]|split; [left; exact Hy|left; apply W10; exact Hy]]. }
  assert (HDm' : forall i, Dm (k_flags w') (pend w') (allprocs (k_lps w')) i <-> Dm (k_flags w4) (pend w4) ([m] ++ allprocs (k_lps w4)) i).
  { intros i. unfold Dm. split.
    - intros (y & Ey & H). exists y. split; [exact Ey|]. destruct H as [[Hy Hfy]|[Hy Hfy]].
      + apply Hpend' in Hy. destruct Hy as [Hy|Hy]; [rewrite (W10 y Hy) in Hfy; discriminate|]. left. rewrite (Hfl' y ltac:(apply in_or_app; left; exact Hy)) in Hfy. split; assumption.
      + apply Hprocs' in Hy. assert (Hy' : In y ([m] ++ allprocs (k_lps w4))) by (cbn [app In]; destruct Hy as [->|Hy]; [left; reflexivity|right; exact Hy]).
        rewrite (Hfl' y ltac:(apply in_or_app; right; apply in_or_app; left; exact Hy')) in Hfy. right. split; assumption.
    - intros (y & Ey & H). exists y. split; [exact Ey|]. destruct H as [[Hy Hfy]|[Hy Hfy]].
      + left. split; [apply Hpend'; right; exact Hy|rewrite (Hfl' y ltac:(apply in_or_app; left; exact Hy)); exact Hfy].
      + right. split; [apply Hprocs'; cbn [app In] in Hy; destruct Hy as [<-|Hy]; [left; reflexivity|right; exact Hy]|].
        rewrite (Hfl' y ltac:(apply in_or_app; right; apply in_or_app; left; exact Hy)). exact Hfy. }
  assert (Egvt' : k_gvt w' = k_gvt w) by (rewrite W7, Q7; exact Eg3).
  (* a released message is not among the newly cancelled identities *)
  assert (Hghost_ok : forall i gi, i < n -> In (ent gi) (Abs.hist cont a i) -> (Z.of_N (tm (snd gi)) < k_gvt w)%Z -> Abs.doomedb cont a (amsg (snd gi)) = false ->
            ~ In (Abs.mid cont (amsg (snd gi))) (Abs.ids_of cont (map ent gu))).
  { intros i gi Hi Hin Ht _ Hids. unfold Abs.ids_of in Hids. apply in_map_iff in Hids. destruct Hids as (xo & Exo & Hxo).
    assert (Hxo' := Hxo). apply in_flat_map in Hxo'. destruct Hxo' as (e & He & Hxe). apply in_map_iff in He. destruct He as (gg & <- & Hgg).
    cbn [ent Abs.eouts] in Hxe. apply in_map_iff in Hxe. destruct Hxe as (o & <- & Ho).
    assert (Eo : snd gi = o).
    { apply (ghost_not_marked a i gi l (map ent gu) o I Hi Hdl Hin); [|exact Hxo|symmetry; exact Exo].
      intros e He. rewrite Eah, !map_app. apply in_or_app. right. apply in_or_app. right. exact He. }
    specialize (Hmt o ltac:(apply in_flat_map; exists gg; split; assumption)). rewrite Eg3 in Hmt. rewrite Eo in Ht. lia. }
  constructor; cbn [Abs.hist Abs.pool Abs.antis Abs.nid].
  - exact F'.
  - rewrite Hlen'. exact Hlen.
  - (* flag-0 markers are pending *)
    intros o Ho Hfo. apply Hmarks' in Ho. destruct Ho as [Ho|Ho]; [apply Hpend'; left; exact Ho|].
    rewrite (Hfl' o ltac:(rewrite !in_app_iff; tauto)) in Hfo. apply Hpend'. right. apply Q12; assumption.
  - (* no flag 5 *)
    intros y Hy. apply Hprocs' in Hy. assert (Hy' : In y ([m] ++ allprocs (k_lps w4))) by (cbn [app In]; destruct Hy as [->|Hy]; [left; reflexivity|right; exact Hy]).
    rewrite (Hfl' y ltac:(apply in_or_app; right; apply in_or_app; left; exact Hy')). apply (Q13 ([m] ++ allprocs (k_lps w))); [|].
    + intros z [<-|Hz]; [rewrite Hf3m; discriminate|apply N53; exact Hz].
    + cbn [app In] in *. destruct Hy as [->|Hy]; [left; reflexivity|right]. apply in_allprocs_iff in Hy. destruct Hy as (i & Hi & H). apply in_allprocs_iff.
      rewrite Q5 in Hi. change (k_lps w3) with (k_lps w1) in Hi. rewrite El in Hi. exists i. split; [exact Hi|].
      destruct (Nat.eq_dec i l) as [->|Hne]; [rewrite Q1 in H; rewrite <- Ex, Ehist, (app_assoc g0 gk gu), flat_app; apply in_or_app; left; exact H|].
      rewrite (Q2 i Hne) in H. unfold get_lp in *. change (k_lps w3) with (k_lps w1) in H. rewrite El in H. exact H.
  - eapply Bridge.rs; [exact Hre|exact Hstep].
  - intros i Hi. destruct (Nat.eq_dec i l) as [->|Hne].
    + exists g0, gdone, (gk ++ [(news, m)]). split; [exact Hhist'|]. split; [rewrite W3, Q3; exact Ebase|]. split; [|split; [|exact Hshape]].
      * unfold Abs.upd. rewrite Nat.eqb_refl. rewrite (app_assoc gdone gk), (map_app ent (gdone ++ gk)). reflexivity.
      * intros g Hgg. destruct (Hghost g Hgg) as [H1 H2]. split; [rewrite Egvt'; exact H1|].
        apply (Abs.doomedb_false cont). cbn [Abs.antis]. intro Ed.
        apply in_app_or in Ed. destruct Ed as [Ed|Ed]; [apply (Abs.doomedb_false cont) in H2; exact (H2 Ed)|].
        apply (Hghost_ok l g Hdl); [rewrite Eah, map_app; apply in_or_app; left; apply in_map; exact Hgg|exact H1|exact H2|exact Ed].
    + destruct (Hh i Hi) as (g0' & gdone' & gs' & E1 & E2 & E3 & E4 & E5). exists g0', gdone', gs'. rewrite (Hget i Hne). split; [exact E1|]. split; [exact E2|]. split; [|split; [|exact E5]].
      * unfold Abs.upd. destruct (Nat.eqb_spec i l); [contradiction|exact E3].
      * intros g Hgg. destruct (E4 g Hgg) as [H1 H2]. split; [rewrite Egvt'; exact H1|].
        apply (Abs.doomedb_false cont). cbn [Abs.antis]. intro Ed.
        apply in_app_or in Ed. destruct Ed as [Ed|Ed]; [apply (Abs.doomedb_false cont) in H2; exact (H2 Ed)|].
        apply (Hghost_ok i g Hi); [rewrite E3, map_app; apply in_or_app; left; apply in_map; exact Hgg|exact H1|exact H2|exact Ed].
  - (* the pool *)
    intros x0. rewrite !in_app_iff, (remove1_in_iff _ _ _ (pool_nodup a I)), Hp. cbn [amsg Abs.mid]. split.
    + intros [[(y & Hy & ->) Hne]|[H|H]].
      * exists y. split; [|reflexivity]. apply HLive'. left. apply Q10. left. apply HLive3. split; [exact Hy|]. intro E. apply Hne. cbn [amsg Abs.mid]. rewrite E. reflexivity.
      * rewrite map_map in H. apply in_map_iff in H. destruct H as (g & <- & Hgg). exists (snd g). split; [|reflexivity]. apply HLive'. left. apply Q10. right. apply in_map. exact Hgg.
      * apply in_map_iff in H. destruct H as (y & <- & Hy). exists y. split; [|reflexivity]. apply HLive'. right. exact Hy.
    + intros (y & Hy & ->). apply HLive' in Hy. destruct Hy as [Hy|Hy]; [|right; right; apply in_map; exact Hy].
      apply Q10 in Hy. destruct Hy as [Hy|Hy].
      * apply HLive3 in Hy. destruct Hy as [Hy Hne]. left. split; [exists y; split; [exact Hy|reflexivity]|]. cbn [amsg Abs.mid]. intro E. apply Hne. apply Pos2Nat.inj. exact E.
      * right. left. rewrite map_map. apply in_map_iff in Hy. destruct Hy as (g & <- & Hgg). apply in_map_iff. exists g. split; [reflexivity|exact Hgg].
  - (* the cancelled identities *)
    intros i. rewrite in_app_iff, Ha. split.
    + intros [(j & Hj & ->)|H].
      * exists j. split; [|reflexivity]. apply HDm'. apply Q11. left. apply HDm3. exact Hj.
      * unfold Abs.ids_of in H. apply in_map_iff in H. destruct H as (x0 & <- & Hx). apply in_flat_map in Hx. destruct Hx as (e & He & Hx).
        apply in_map_iff in He. destruct He as (g & <- & Hgg). cbn [ent Abs.eouts] in Hx. apply in_map_iff in Hx. destruct Hx as (o & <- & Ho).
        exists (wm_id o). split; [|reflexivity]. apply HDm'. apply Q11. right. apply in_map. apply in_flat_map. exists g. split; assumption.
    + intros (j & Hj & ->). apply HDm' in Hj. apply Q11 in Hj. destruct Hj as [Hj|Hj].
      * left. exists j. split; [apply HDm3; exact Hj|reflexivity].
      * right. apply in_map_iff in Hj. destruct Hj as (o & <- & Ho). apply in_flat_map in Ho. destruct Ho as (g & Hgg & Ho).
        unfold Abs.ids_of. apply in_map_iff. exists (amsg o). split; [reflexivity|]. apply in_flat_map. exists (ent g). split; [apply in_map; exact Hgg|cbn [ent Abs.eouts]; apply in_map; exact Ho].
  - rewrite map_length. unfold news. rewrite W6, psucc_n_nat.
    assert (E : length (mknews (k_next w4) outs) = length outs) by (rewrite <- (map_length wm_ev), mknews_ev; reflexivity). rewrite E. reflexivity.
Qed.

(* ---------- the cancellation notice of a processed message: abstract step s_cancel ---------- *)
Lemma nodup_mid {A B} (f : A -> B) (a : list A) x b y : NoDup (map f (a ++ x :: b)) -> In y (a ++ b) -> f y <> f x.
Proof.
  intros Hnd Hy E. rewrite map_app in Hnd. cbn [map] in Hnd. apply NoDup_remove_2 in Hnd. apply Hnd. rewrite <- E, <- map_app. apply in_map. exact Hy.
Qed.

Lemma sim_cancel w a w1 m : R w a -> Permutation (pend w) (m :: pend w1) ->
  k_flags w1 = k_flags w -> k_next w1 = k_next w -> k_gvt w1 = k_gvt w -> k_lps w1 = k_lps w ->
  fl (k_flags w) m = 3%N ->
  let l := N.to_nat (e_dest (wm_ev m)) in
  let w3 := set_flags w1 (flag_set (k_flags w1) (wm_id m) 5) in
  forall past, anti_index m (x_hist (get_lp w3 l)) = Some past ->
  let w4 := do_rollback p w3 l past in
  let w' := put_lp w4 l (fix_bound (get_lp w4 l)) in
  full p w' -> exists a', astep a a' /\ R w' a'.
Proof.
  intros Hr Hperm Ef En Eg El Hfm l w3 past Ea w4 w' F'.
  pose proof Hr as [F Hlen M0 N5 Hre Hh Hp Ha Hn].
  pose proof (once_loc w F) as L.
  assert (HL1 : Loc (k_gvt w) (k_flags w) (m :: pend w1) (allprocs (k_lps w)) (allmarks (k_lps w)) (k_next w)) by (eapply Loc_perm; [exact L|exact Hperm|apply Permutation_refl|apply Permutation_refl]).
  assert (Hmin : In m (pend w)) by (apply (Permutation_in _ (Permutation_sym Hperm)); left; reflexivity).
  destruct (f_extra p w F) as [Hxp Hxl]. destruct (Hxp m Hmin) as [Hty Hdl]. fold l in Hdl. rewrite Hlen in Hdl.
  assert (Hgm : (k_gvt w <= Z.of_N (tm m))%Z) by (apply (s_pend w (f_good p w F) m Hmin)).
  destruct (nodup_cons_id m (pend w1) (l_nd_pd _ _ _ _ _ _ HL1)) as [Hnm1 _].
  destruct (Loc_extract3 _ _ _ _ _ _ _ HL1 Hfm) as [Hmpr HL3]. rewrite <- Ef in HL3.
  assert (Hnmk : ~ In m (allmarks (k_lps w))).
  { intro H. destruct (l_mk _ _ _ _ _ _ L m H) as [H1|[H1 _]]; rewrite Hfm in H1; discriminate. }
  assert (Hid : forall y, In y (pend w ++ allprocs (k_lps w) ++ allmarks (k_lps w)) -> wm_id y = wm_id m -> y = m).
  { intros y Hy E. apply (same_id w y m F Hy); [apply in_or_app; left; exact Hmin|exact E]. }
  assert (Hl3 : l < length (k_lps w3)) by (change (k_lps w3) with (k_lps w1); rewrite El, Hlen; exact Hdl).
  set (f3 := flag_set (k_flags w1) (wm_id m) 5) in *.
  assert (Hfl : forall y, wm_id y <> wm_id m -> fl f3 y = fl (k_flags w) y) by (intros y Hy; unfold f3; rewrite Ef; apply fl_set_other; exact Hy).
  assert (Hf3m : fl f3 m = 5%N) by (unfold f3; apply fl_set_same).
  assert (Ok3 : all_ok2 p w3) by (unfold all_ok2; change (k_lps w3) with (k_lps w1); rewrite El; exact (f_ok p w F)).
  assert (Eg3 : k_gvt w3 = k_gvt w) by (change (k_gvt w3) with (k_gvt w1); exact Eg).
  destruct (Hh l Hdl) as (g0 & gdone & gs & Ehist & Ebase & Eah & Hghost & Hshape).
  assert (Hshape' : g0 = [] \/ exists ms im, g0 = [(ms, im)]) by (destruct Hshape as [(ms & im & E & _)|E]; [right; exists ms, im; exact E|left; exact E]).
  set (x := get_lp w3 l) in *.
  assert (Ex : x = get_lp w l) by (unfold x, get_lp; change (k_lps w3) with (k_lps w1); rewrite El; reflexivity).
  rewrite <- Ex in Ehist, Ebase.
  destruct (get_ok2 p w3 l Ok3 Hl3) as [Hlok Hlwf]. fold x in Hlok, Hlwf.
  assert (Hbase : lp_base x) by (rewrite Ex; apply (Hxl l ltac:(rewrite Hlen; exact Hdl))).
  assert (Htime : lp_time x) by (rewrite Ex; apply (get_time w l (f_good p w F)); rewrite Hlen; exact Hdl).
  (* where the cancelled message sits *)
  pose proof (anti_ge_base p ck m x past Hlok Hbase Hty Ea) as Hbp. rewrite Ebase in Hbp. cbn [fst] in Hbp.
  destruct (anti_index_bnd m _ _ Ea) as [Hbnd Hple]. destruct (anti_index_spec ck m _ _ Ea) as (j & Hkj & Hnj & Hsent).
  (* the markers of the undone groups are at or above the GVT *)
  assert (Hund : forall o, In (ESent o) (skipn past (x_hist x)) -> (tm m <= tm o)%N).
  { apply (undone_ge p H_time x past (tm m) (conj Hlok Hlwf) Hbnd); [rewrite Ebase; exact Hbp|exact Hple|].
    intros y Hy. destruct (In_nth_error _ _ Hy) as (q & Hq). rewrite nth_error_skipn_add in Hq.
    destruct (Nat.lt_trichotomy (past + q) j) as [Hlt|[Heq|Hgt]].
    - destruct (Hsent (past + q) ltac:(lia)) as (z & Hz). congruence.
    - rewrite Heq, Hnj in Hq. injection Hq as <-. apply N.le_refl.
    - apply (ptimes_above (x_hist x) j m (proj1 Htime) Hnj). apply ptimes_in.
      replace (past + q) with (S j + (past + q - S j)) in Hq by lia. rewrite <- nth_error_skipn_add in Hq. apply nth_error_In in Hq. exact Hq. }
  rewrite Ehist in Hbnd, Hple. destruct (flat_g0_cut g0 gs past Hshape' Hbnd Hple Hbp) as (gk & gu & Egs & Ek).
  assert (Ex2 : x_hist x = flat (g0 ++ gk) ++ flat gu) by (rewrite Ehist, Egs, <- flat_app; f_equal; apply app_assoc).
  assert (Hgu : exists mm g2, gu = (mm, m) :: g2).
  { destruct gu as [|[mm m'] g2].
    - exfalso. rewrite Ex2 in Hnj. change (flat []) with (@nil Worker.entry) in Hnj. rewrite app_nil_r in Hnj. assert (j < past) by (rewrite Ek; apply nth_error_Some; intro Hc; pose proof (eq_trans (eq_sym Hc) Hnj) as Hbad; discriminate Hbad). lia.
    - exists mm, g2. f_equal. f_equal.
      assert (Ex3 : x_hist x = flat (g0 ++ gk) ++ (map ESent mm ++ EProc m' :: flat g2)) by (rewrite Ex2; f_equal; apply flat_cons).
      rewrite Ex3 in Hnj, Hsent.
      rewrite nth_error_app2 in Hnj by lia. rewrite <- Ek in Hnj.
      destruct (Nat.lt_trichotomy (j - past) (length mm)) as [Hlt|[Heq|Hgt]].
      + exfalso. rewrite nth_error_app1 in Hnj by (rewrite map_length; exact Hlt). apply nth_error_In in Hnj. apply in_map_iff in Hnj. destruct Hnj as (z & Hz & _). discriminate.
      + rewrite nth_error_app2 in Hnj by (rewrite map_length; lia). rewrite map_length, Heq, Nat.sub_diag in Hnj. cbn in Hnj. injection Hnj as ->. reflexivity.
      + exfalso. destruct (Hsent (past + length mm) ltac:(lia)) as (z & Hz). rewrite nth_error_app2 in Hz by lia. rewrite <- Ek in Hz.
        replace (past + length mm - past) with (length mm) in Hz by lia. rewrite nth_error_app2 in Hz by (rewrite map_length; lia).
        rewrite map_length, Nat.sub_diag in Hz. cbn in Hz. discriminate. }
  destruct Hgu as (mm & g2 & ->). subst gs.
  assert (Ehist2 : x_hist x = flat ((g0 ++ gk) ++ (mm, m) :: g2)) by (rewrite Ex2, <- flat_app; reflexivity).
  assert (Hskip : skipn past (x_hist x) = flat ((mm, m) :: g2)) by (rewrite Ehist2, Ek; apply skipn_flat_app).
  assert (Hmt : forall o, In o (mm ++ flat_map fst g2) -> (k_gvt w3 <= Z.of_N (tm o))%Z).
  { intros o Ho. rewrite Eg3. specialize (Hund o ltac:(rewrite Hskip; apply in_marks; rewrite marks_flat; exact Ho)). lia. }
  assert (Hpin : forall g, In g ((g0 ++ gk) ++ (mm, m) :: g2) -> In (snd g) (allprocs (k_lps w))).
  { intros g Hgg. apply in_allprocs_iff. exists l. split; [rewrite Hlen; exact Hdl|]. rewrite <- Ex, Ehist2. apply in_procs. rewrite procs_flat. apply in_map. exact Hgg. }
  assert (HnotIn : forall g, In g ((g0 ++ gk) ++ g2) -> wm_id (snd g) <> wm_id m).
  { pose proof (l_nd_pr _ _ _ _ _ _ L) as Hnd. unfold allprocs in Hnd.
    apply (Permutation_NoDup (Permutation_map wm_id (split_lp (fun y => procs_of (x_hist y)) (k_lps w) l ltac:(rewrite Hlen; exact Hdl)))) in Hnd.
    fold (get_lp w l) in Hnd. rewrite <- Ex, Ehist2, map_app, procs_flat in Hnd. apply Abs.nodup_app_l in Hnd. rewrite map_map in Hnd.
    intros g Hgg. apply (nodup_mid (fun g => wm_id (snd g)) (g0 ++ gk) (mm, m) g2 g Hnd Hgg). }
  (* the state before the undo *)
  assert (M03 : Mk0 f3 (pend w3) (allmarks (k_lps w3))).
  { change (k_lps w3) with (k_lps w1). change (pend w3) with (pend w1). rewrite El. intros o Ho Hfo. destruct (Pos.eq_dec (wm_id o) (wm_id m)) as [E|E].
    - exfalso. apply Hnmk. rewrite <- (Hid o ltac:(rewrite !in_app_iff; tauto) E). exact Ho.
    - rewrite (Hfl o E) in Hfo. pose proof (M0 o Ho Hfo) as Hop. apply (Permutation_in _ Hperm) in Hop. destruct Hop as [<-|Hop]; [congruence|exact Hop]. }
  assert (N53 : forall y, In y (allprocs (k_lps w)) -> wm_id y <> wm_id m -> fl f3 y <> 5%N) by (intros y Hy Hne; rewrite (Hfl y Hne); apply N5; exact Hy).
  assert (HL3' : Loc (k_gvt w3) (k_flags w3) (pend w3) (allprocs (k_lps w3)) (allmarks (k_lps w3)) (k_next w3)).
  { change (k_flags w3) with f3. change (pend w3) with (pend w1). change (k_lps w3) with (k_lps w1). change (k_next w3) with (k_next w1). rewrite Eg3, El, En. exact HL3. }
  destruct (cancel_sets w3 l (g0 ++ gk) mm m g2 Ok3 Hl3 Ehist2) as (Q1 & Q2 & Q3 & Q4 & Q5 & Q6 & Q7 & Q8 & Q10 & Q11 & Q12 & Q13).
  { fold x. rewrite Ebase. cbn [fst]. rewrite flat_app, app_length. lia. }
  { exact HL3'. } { exact M03. } { exact Hf3m. }
  { intros y Hy. apply in_map_iff in Hy. destruct Hy as (g & <- & Hgg). apply N53; [apply Hpin; apply in_or_app; right; right; exact Hgg|apply HnotIn; apply in_or_app; right; exact Hgg]. }
  { exact Hmt. }
  cbn zeta in *. rewrite <- Ek in Q1, Q2, Q3, Q4, Q5, Q6, Q7, Q8, Q10, Q11, Q12, Q13. fold w4 in Q1, Q2, Q3, Q4, Q5, Q6, Q7, Q8, Q10, Q11, Q12, Q13.
  assert (Hl4 : l < length (k_lps w4)) by (rewrite Q5; exact Hl3).
  destruct (put_same_hist w4 l (fix_bound (get_lp w4 l)) Hl4 (fix_bound_hist _)) as [Epp Emm].
  (* the abstract step *)
  pose proof (reach_Inv a Hre) as I.
  assert (Eah' : Abs.hist cont a l = map ent (gdone ++ gk) ++ ent (mm, m) :: map ent g2) by (rewrite Eah, app_assoc, map_app; reflexivity).
  assert (Hdm : Abs.doomedb cont a (Abs.em cont (ent (mm, m))) = true) by (cbn [ent Abs.em snd]; apply (doomed_iff w a m Hr Hmpr); exact Hfm).
  pose proof (Abs.s_cancel cont cltb tltb lpstate n (AppAbs.s0 p) (ahandle p) a l (map ent (gdone ++ gk)) (ent (mm, m)) (map ent g2) Hdl Eah' Hdm) as Hstep.
  eexists. split; [exact Hstep|].
  assert (Hget : forall i, i <> l -> get_lp w' i = get_lp w i).
  { intros i Hi. unfold w'. rewrite (get_put_other w4 l _ i Hi), (Q2 i Hi). unfold get_lp. change (k_lps w3) with (k_lps w1). rewrite El. reflexivity. }
  assert (HLive3 : forall y, Live f3 (pend w3) y <-> Live (k_flags w) (pend w) y).
  { intros y. unfold Live. change (pend w3) with (pend w1). split.
    - intros [Hy Hfy]. assert (Hyw : In y (pend w)) by (apply (Permutation_in _ (Permutation_sym Hperm)); right; exact Hy).
      assert (Hyall : In y (pend w ++ allprocs (k_lps w) ++ allmarks (k_lps w))) by (apply in_or_app; left; exact Hyw).
      assert (Hne : wm_id y <> wm_id m) by (intro E0; apply Hnm1; rewrite <- (Hid y Hyall E0); exact Hy).
      rewrite (Hfl y Hne) in Hfy. split; assumption.
    - intros [Hy Hfy]. assert (Hne : wm_id y <> wm_id m) by (intro E0; unfold fl in Hfy, Hfm; rewrite E0, Hfm in Hfy; destruct Hfy; discriminate).
      rewrite (Hfl y Hne). split; [|exact Hfy]. apply (Permutation_in _ Hperm) in Hy. destruct Hy as [<-|Hy]; [congruence|exact Hy]. }
  assert (HDm3 : forall i, Dm f3 (pend w3) (allprocs (k_lps w3)) i <-> Dm (k_flags w) (pend w) (allprocs (k_lps w)) i).
  { intros i. unfold Dm. change (pend w3) with (pend w1). change (k_lps w3) with (k_lps w1). rewrite El. split.
    - intros (y & Ey & H). destruct (Pos.eq_dec (wm_id y) (wm_id m)) as [E|E].
      + exists m. split; [rewrite <- Ey; symmetry; exact E|right; split; [exact Hmpr|left; exact Hfm]].
      + exists y. split; [exact Ey|]. rewrite (Hfl y E) in H. destruct H as [[Hy Hfy]|H]; [left; split; [apply (Permutation_in _ (Permutation_sym Hperm)); right; exact Hy|exact Hfy]|right; exact H].
    - intros (y & Ey & H). destruct (Pos.eq_dec (wm_id y) (wm_id m)) as [E|E].
      + exists m. split; [rewrite <- Ey; symmetry; exact E|right; split; [exact Hmpr|right; exact Hf3m]].
      + exists y. split; [exact Ey|]. rewrite (Hfl y E). destruct H as [[Hy Hfy]|H]; [left; split; [|exact Hfy]|right; exact H].
        apply (Permutation_in _ Hperm) in Hy. destruct Hy as [<-|Hy]; [congruence|exact Hy]. }
  assert (Hmm_ne : forall o, In o mm -> wm_id o <> wm_id m).
  { intros o Ho E. apply Hnmk. rewrite <- (Hid o) by (rewrite ?in_app_iff; try (right; right; apply in_allmarks_iff; exists l; split; [rewrite Hlen; exact Hdl|]; rewrite <- Ex, Ehist2; apply in_marks; rewrite marks_flat, flat_map_app; apply in_or_app; right; cbn [flat_map fst]; apply in_or_app; left; exact Ho); exact E).
    apply in_allmarks_iff. exists l. split; [rewrite Hlen; exact Hdl|]. rewrite <- Ex, Ehist2. apply in_marks. rewrite marks_flat, flat_map_app. apply in_or_app. right. cbn [flat_map fst]. apply in_or_app. left. exact Ho. }
  assert (Egvt' : k_gvt w' = k_gvt w) by (change (k_gvt w') with (k_gvt w4); rewrite Q7; exact Eg3).
  (* a released message is not among the newly cancelled identities, and stays uncancelled *)
  assert (Hghost_ok : forall i gi, i < n -> In (ent gi) (Abs.hist cont a i) -> (Z.of_N (tm (snd gi)) < k_gvt w)%Z ->
            ~ In (Abs.mid cont (amsg (snd gi))) (Abs.ids_of cont (ent (mm, m) :: map ent g2))).
  { intros i gi Hi Hin Ht Hids. unfold Abs.ids_of in Hids. apply in_map_iff in Hids. destruct Hids as (xo & Exo & Hxo).
    assert (Hxo' := Hxo). change (ent (mm, m) :: map ent g2) with (map ent ((mm, m) :: g2)) in Hxo'. apply in_flat_map in Hxo'. destruct Hxo' as (e & He & Hxe). apply in_map_iff in He. destruct He as (gg & <- & Hgg).
    cbn [ent Abs.eouts] in Hxe. apply in_map_iff in Hxe. destruct Hxe as (o & <- & Ho).
    assert (Eo : snd gi = o).
    { apply (ghost_not_marked a i gi l (ent (mm, m) :: map ent g2) o I Hi Hdl Hin); [|exact Hxo|symmetry; exact Exo].
      intros e He. rewrite Eah'. apply in_or_app. right. exact He. }
    specialize (Hmt o ltac:(destruct Hgg as [<-|Hgg]; [apply in_or_app; left; exact Ho|apply in_or_app; right; apply in_flat_map; exists gg; split; assumption])). rewrite Eg3 in Hmt. rewrite Eo in Ht. lia. }
  constructor; cbn [Abs.hist Abs.pool Abs.antis Abs.nid].
  - exact F'.
  - unfold w'. cbn [put_lp set_lps k_lps]. rewrite set_nth_length, Q5. change (k_lps w3) with (k_lps w1). rewrite El. exact Hlen.
  - unfold w'. rewrite Emm. exact Q12.
  - unfold w'. rewrite Epp. change (k_flags (put_lp w4 _ _)) with (k_flags w4). apply Q13. intros y Hy.
    assert (Hyw : In y (allprocs (k_lps w)) /\ wm_id y <> wm_id m).
    { apply in_allprocs_iff in Hy. destruct Hy as (i & Hi & H). rewrite Q5 in Hi. change (k_lps w3) with (k_lps w1) in Hi. rewrite El in Hi.
      destruct (Nat.eq_dec i l) as [->|Hne].
      - rewrite Q1 in H. apply in_procs in H. rewrite procs_flat in H. apply in_map_iff in H. destruct H as (g & <- & Hgg).
        split; [apply Hpin; apply in_or_app; left; exact Hgg|apply HnotIn; apply in_or_app; left; exact Hgg].
      - rewrite (Q2 i Hne) in H. assert (Hyw : In y (allprocs (k_lps w))) by (apply in_allprocs_iff; exists i; split; [exact Hi|]; unfold get_lp in *; change (k_lps w3) with (k_lps w1) in H; rewrite El in H; exact H).
        split; [exact Hyw|]. intro E. rewrite (Hid y ltac:(rewrite !in_app_iff; tauto) E) in H.
        destruct (Hxl i Hi) as (_ & _ & Hd & _). unfold get_lp in H. change (k_lps w3) with (k_lps w1) in H. rewrite El in H. specialize (Hd m H). fold l in Hd. congruence. }
    apply N53; tauto.
  - eapply Bridge.rs; [exact Hre|exact Hstep].
  - intros i Hi.
    assert (Hkeep : forall gi, In (ent gi) (Abs.hist cont a i) -> (Z.of_N (tm (snd gi)) < k_gvt w)%Z -> Abs.doomedb cont a (amsg (snd gi)) = false ->
              Abs.doomedb cont {| Abs.hist := Abs.upd (Abs.hist cont a) l (map ent (gdone ++ gk)); Abs.pool := Abs.pool cont a ++ map (Abs.em cont) (map ent g2);
                                   Abs.antis := Abs.remove_id (Abs.mid cont (Abs.em cont (ent (mm, m)))) (Abs.antis cont a) ++ Abs.ids_of cont (ent (mm, m) :: map ent g2);
                                   Abs.nid := Abs.nid cont a |} (amsg (snd gi)) = false).
    { intros gi Hin Ht Hd. apply (Abs.doomedb_false cont). cbn [Abs.antis]. intro Ed. apply in_app_or in Ed. destruct Ed as [Ed|Ed].
      - apply remove_id_sub in Ed. apply (Abs.doomedb_false cont) in Hd. exact (Hd Ed).
      - exact (Hghost_ok i gi Hi Hin Ht Ed). }
    destruct (Nat.eq_dec i l) as [->|Hne].
    + exists g0, gdone, gk. unfold w'. rewrite (get_lp_set w4 l _ Hl4), fix_bound_hist, fix_bound_base, Q1, Q3. split; [reflexivity|]. split; [exact Ebase|]. split; [|split; [|exact Hshape]].
      * unfold Abs.upd. rewrite Nat.eqb_refl. reflexivity.
      * intros g Hgg. destruct (Hghost g Hgg) as [H1 H2]. split; [fold w'; rewrite Egvt'; exact H1|].
        apply Hkeep; [rewrite Eah', map_app; apply in_or_app; left; apply in_or_app; left; apply in_map; exact Hgg|exact H1|exact H2].
    + destruct (Hh i Hi) as (g0' & gdone' & gs' & E1 & E2 & E3 & E4 & E5). exists g0', gdone', gs'. rewrite (Hget i Hne). split; [exact E1|]. split; [exact E2|]. split; [|split; [|exact E5]].
      * unfold Abs.upd. destruct (Nat.eqb_spec i l); [contradiction|exact E3].
      * intros g Hgg. destruct (E4 g Hgg) as [H1 H2]. split; [rewrite Egvt'; exact H1|].
        apply Hkeep; [rewrite E3, map_app; apply in_or_app; left; apply in_map; exact Hgg|exact H1|exact H2].
  - intros x0. rewrite in_app_iff, Hp. change (pend w') with (pend w4). change (k_flags w') with (k_flags w4). split.
    + intros [(y & Hy & ->)|H].
      * exists y. split; [|reflexivity]. apply Q10. left. apply HLive3. exact Hy.
      * rewrite map_map in H. apply in_map_iff in H. destruct H as (g & <- & Hgg). exists (snd g). split; [|reflexivity]. apply Q10. right. apply in_map. exact Hgg.
    + intros (y & Hy & ->). apply Q10 in Hy. destruct Hy as [Hy|Hy]; [left; exists y; split; [apply HLive3; exact Hy|reflexivity]|].
      right. rewrite map_map. apply in_map_iff in Hy. destruct Hy as (g & <- & Hgg). apply in_map_iff. exists g. split; [reflexivity|exact Hgg].
  - intros i. rewrite in_app_iff, (remove_id_in_iff _ _ _ (Abs.i_nd_antis cont n init0 a I)), Ha. unfold w'. rewrite Epp.
    change (pend (put_lp w4 _ _)) with (pend w4). change (k_flags (put_lp w4 _ _)) with (k_flags w4). cbn [ent Abs.em snd amsg Abs.mid]. split.
    + intros [[(j0 & Hj & ->) Hne]|H].
      * exists j0. split; [|reflexivity]. apply Q11. left. split; [left; apply HDm3; exact Hj|]. intro E. apply Hne. rewrite E. reflexivity.
      * unfold Abs.ids_of in H. cbn [flat_map ent Abs.eouts fst] in H. rewrite map_app in H. apply in_app_or in H. destruct H as [H|H].
        -- rewrite map_map in H. apply in_map_iff in H. destruct H as (o & <- & Ho). exists (wm_id o). split; [|reflexivity]. apply Q11. left. split; [right; apply in_map; exact Ho|apply Hmm_ne; exact Ho].
        -- apply in_map_iff in H. destruct H as (x1 & <- & Hx). apply in_flat_map in Hx. destruct Hx as (e & He & Hx). apply in_map_iff in He. destruct He as (g & <- & Hgg).
           cbn [ent Abs.eouts] in Hx. apply in_map_iff in Hx. destruct Hx as (o & <- & Ho). exists (wm_id o). split; [|reflexivity]. apply Q11. right. apply in_map. apply in_flat_map. exists g. split; assumption.
    + intros (j0 & Hj & ->). apply Q11 in Hj. destruct Hj as [[[Hj|Hj] Hne]|Hj].
      * left. split; [exists j0; split; [apply HDm3; exact Hj|reflexivity]|]. intro E. apply Hne. apply Pos2Nat.inj. exact E.
      * right. unfold Abs.ids_of. cbn [flat_map ent Abs.eouts fst]. rewrite map_app. apply in_or_app. left. rewrite map_map. apply in_map_iff in Hj. destruct Hj as (o & <- & Ho). apply in_map_iff. exists o. split; [reflexivity|exact Ho].
      * right. unfold Abs.ids_of. cbn [flat_map ent Abs.eouts fst]. rewrite map_app. apply in_or_app. right. apply in_map_iff in Hj. destruct Hj as (o & <- & Ho). apply in_flat_map in Ho. destruct Ho as (g & Hgg & Ho).
        apply in_map_iff. exists (amsg o). split; [reflexivity|]. apply in_flat_map. exists (ent g). split; [apply in_map; exact Hgg|cbn [ent Abs.eouts]; apply in_map; exact Ho].
  - change (k_next w') with (k_next w4). rewrite Q6. change (k_next w3) with (k_next w1). rewrite En. exact Hn.
Qed.

(* ---------- fossil collection of one LP: no abstract step; the released groups become ghosts ---------- *)
Lemma firstn_flat_app (a b : list group) : firstn (length (flat a)) (flat (a ++ b)) = flat a.
Proof. rewrite flat_app, firstn_app, firstn_all, Nat.sub_diag, firstn_O, app_nil_r. reflexivity. Qed.

Lemma fossil_groups w l (g0 gs : list group) s0 :
  all_ok2 p w -> Forall lp_time (k_lps w) -> l < length (k_lps w) ->
  x_hist (get_lp w l) = flat (g0 ++ gs) -> base (get_lp w l) = (length (flat g0), s0) -> (g0 = [] \/ exists ms im, g0 = [(ms, im)]) ->
  k_err w = false -> k_err (fossil_lp w l) = false ->
  let x' := get_lp (fossil_lp w l) l in
  x' = get_lp w l \/
  exists gk gu, gs = gk ++ gu /\ x_hist x' = flat gu /\ base x' = (0, replay p s0 (flat gk)) /\ (forall g, In g (g0 ++ gk) -> (Z.of_N (tm (snd g)) < k_gvt w)%Z).
Proof.
  intros Hok Htime Hl Eh Eb Hshape He He'. unfold fossil_lp in *. set (x := get_lp w l) in *.
  destruct (get_ok2 p w l Hok Hl) as [Hlok Hlwf]. fold x in Hlok, Hlwf.
  destruct (newest_below (k_gvt w) (rev (x_hist x)) (length (x_hist x))) as [past|] eqn:En; [|left; reflexivity].
  destruct (drop_newer (x_logs x) (past + 1)) as [|[ref snap] older] eqn:Hd; [cbn in He'; discriminate|].
  right. cbn zeta. rewrite (get_lp_set w l _ Hl).
  destruct Hlok as (newer & r0 & s0' & El & Hs & Hsn & Hst).
  pose proof (base_eq x newer r0 s0' El) as Eb'. rewrite Eb in Eb'. injection Eb' as <- <-.
  assert (Hxt : lp_time x) by (rewrite Forall_forall in Htime; apply Htime; unfold x, get_lp; apply nth_In; exact Hl).
  pose proof (fossil_releases_below p ck H_time x (k_gvt w) past ref snap older (proj1 Hxt) En Hs Hd) as Hrel.
  pose proof (drop_newer_spec (x_logs x) (past + 1) Hs) as Hspec. rewrite Hd in Hspec. destruct Hspec as (pre0 & E0 & Hle0 & _). cbn [fst] in Hle0.
  assert (Hin : In (ref, snap) (x_logs x)) by (rewrite E0; apply in_or_app; right; left; reflexivity).
  assert (Hrefge : length (flat g0) <= ref) by (apply (base_least newer (length (flat g0)) s0 ref snap); [rewrite <- El; exact Hs|rewrite <- El; exact Hin]).
  destruct (Hsn ref snap Hin) as [Hrefle Hsnap].
  pose proof (proj2 Hlwf (ref, snap) Hin) as Hbnd. cbn [fst] in Hbnd.
  rewrite Eh in Hbnd, Hrefle.
  destruct (flat_g0_cut g0 gs ref Hshape Hbnd Hrefle Hrefge) as (gk & gu & Egs & Ek).
  exists gk, gu. split; [exact Egs|]. cbn [x_hist]. split; [|split].
  - rewrite Eh, Egs, Ek, app_assoc. apply skipn_flat_app.
  - unfold base. cbn [x_logs]. destruct (fossil_kept p H_time x (past + 1) ref snap older Hs Hd) as (pre & Ekp). rewrite Hd in Ekp. cbn [length] in Ekp.
    cbn [length]. rewrite Ekp, map_app. cbn [map]. rewrite last_last. cbn [fst snd]. rewrite Nat.sub_diag. f_equal.
    rewrite Hsnap. f_equal. unfold sub. rewrite Eh, Egs.
    assert (E1 : skipn (length (flat g0)) (flat (g0 ++ gk ++ gu)) = flat (gk ++ gu)) by apply skipn_flat_app. rewrite E1.
    replace (ref - length (flat g0)) with (length (flat gk)) by (rewrite Ek, flat_app, app_length; lia). apply firstn_flat_app.
  - intros g Hgg. apply Hrel. rewrite Eh, Egs, Ek, app_assoc, firstn_flat_app. apply in_procs. rewrite procs_flat. apply in_map. exact Hgg.
Qed.

Lemma stofg_app l (a b : list group) : (l < nlps p)%nat -> (forall g, In g b -> e_dest (wm_ev (snd g)) = N.of_nat l) ->
  replay p (stofg l a) (flat b) = stofg l (a ++ b).
Proof.
  intros Hl Hd. unfold stofg, Abs.stof. rewrite map_app, fold_left_app, replay_flat. symmetry. apply stof_flat; assumption.
Qed.

Lemma fossil_sim w a l : R w a -> l < n ->
  let w' := fossil_lp w l in
  let wv := put_lp w' l (fix_bound (get_lp w' l)) in
  full p wv -> R wv a.
Proof.
  intros Hr Hl w' wv F'. pose proof Hr as [F Hlen M0 N5 Hre Hh Hp Ha Hn].
  pose proof (once_loc w F) as L.
  assert (Hlw : l < length (k_lps w)) by (rewrite Hlen; exact Hl).
  destruct (f_extra p w F) as [Hxp Hxl].
  destruct (fossil_once p ck H_time w l (pend w) [] (f_ok p w F) (s_time w (f_good p w F)) Hlw (proj1 (Hxl l Hlw)) L (s_pend w (f_good p w F)))
    as (F1 & F2 & F3 & F4 & F5 & F6 & F7 & _ & _ & F10 & _).
  fold w' in F1, F2, F3, F4, F5, F6, F7, F10.
  assert (Hl' : l < length (k_lps w')) by (rewrite F6; exact Hlw).
  assert (Ee' : k_err w' = false) by (pose proof (f_err p wv F') as E; exact E).
  destruct (Hh l Hl) as (g0 & gdone & gs & Ehist & Ebase & Eah & Hghost & Hshape).
  assert (Hshape' : g0 = [] \/ exists ms im, g0 = [(ms, im)]) by (destruct Hshape as [(ms & im & E & _)|E]; [right; exists ms, im; exact E|left; exact E]).
  pose proof (fossil_groups w l g0 gs (stofg l gdone) (f_ok p w F) (s_time w (f_good p w F)) Hlw Ehist Ebase Hshape' (f_err p w F) Ee') as Hfg.
  cbn zeta in Hfg. fold w' in Hfg.
  assert (Egetl : x_hist (get_lp wv l) = x_hist (get_lp w' l) /\ base (get_lp wv l) = base (get_lp w' l)).
  { unfold wv. rewrite (get_lp_set w' l _ Hl'). split; [apply fix_bound_hist|apply fix_bound_base]. }
  assert (Hget : forall i, i <> l -> get_lp wv i = get_lp w i) by (intros i Hi; unfold wv; rewrite (get_put_other w' l _ i Hi); apply F10; exact Hi).
  assert (Hsubh : forall e, In e (x_hist (get_lp wv l)) -> In e (x_hist (get_lp w l))).
  { intros e He. rewrite (proj1 Egetl) in He. destruct Hfg as [E|(gk & gu & Egs & Eh' & _)]; [rewrite E in He; exact He|].
    rewrite Eh' in He. rewrite Ehist, Egs, app_assoc, flat_app. apply in_or_app. right. exact He. }
  assert (Hlenv : length (k_lps wv) = length (k_lps w)) by (unfold wv; cbn [put_lp set_lps k_lps]; rewrite set_nth_length; exact F6).
  assert (Hsubp : forall y, In y (allprocs (k_lps wv)) -> In y (allprocs (k_lps w))).
  { intros y Hy. apply in_allprocs_iff in Hy. destruct Hy as (i & Hi & H). apply in_allprocs_iff. rewrite Hlenv in Hi. exists i. split; [exact Hi|].
    destruct (Nat.eq_dec i l) as [->|Hne]; [apply Hsubh; exact H|rewrite <- (Hget i Hne); exact H]. }
  assert (Hsubm : forall y, In y (allmarks (k_lps wv)) -> In y (allmarks (k_lps w))).
  { intros y Hy. apply in_allmarks_iff in Hy. destruct Hy as (i & Hi & H). apply in_allmarks_iff. rewrite Hlenv in Hi. exists i. split; [exact Hi|].
    destruct (Nat.eq_dec i l) as [->|Hne]; [apply Hsubh; exact H|rewrite <- (Hget i Hne); exact H]. }
  assert (Efl : k_flags wv = k_flags w) by exact F3.
  assert (Epd : pend wv = pend w) by exact F5.
  assert (Egv : k_gvt wv = k_gvt w) by exact F2.
  (* a processed message below the GVT is not cancelled *)
  assert (Hlow : forall y, In y (allprocs (k_lps w)) -> (Z.of_N (tm y) < k_gvt w)%Z -> fl (k_flags w) y = 2%N).
  { intros y Hy Ht. destruct (l_pr _ _ _ _ _ _ L y Hy) as [[_ Hpd]|[[H2 _]|[H5 _]]]; [|exact H2|exfalso; exact (N5 y Hy H5)].
    exfalso. pose proof (s_pend w (f_good p w F) y Hpd) as Hge. unfold ge in Hge. lia. }
  (* a processed message that is no longer retained was below the GVT *)
  assert (Hrel : forall y, In y (allprocs (k_lps w)) -> In y (allprocs (k_lps wv)) \/ (Z.of_N (tm y) < k_gvt w)%Z).
  { intros y Hy. apply in_allprocs_iff in Hy. destruct Hy as (i & Hi & H).
    destruct (Nat.eq_dec i l) as [->|Hne].
    - destruct Hfg as [E|(gk & gu & Egs & Eh' & _ & Hbel)].
      + left. apply in_allprocs_iff. exists l. split; [rewrite Hlenv; exact Hi|]. rewrite (proj1 Egetl), E. exact H.
      + rewrite Ehist, Egs, app_assoc, flat_app in H. apply in_app_or in H. destruct H as [H|H].
        * right. apply in_procs in H. rewrite procs_flat in H. apply in_map_iff in H. destruct H as (g & <- & Hgg). apply Hbel. exact Hgg.
        * left. apply in_allprocs_iff. exists l. split; [rewrite Hlenv; exact Hi|]. rewrite (proj1 Egetl), Eh'. exact H.
    - left. apply in_allprocs_iff. exists i. split; [rewrite Hlenv; exact Hi|]. rewrite (Hget i Hne). exact H. }
  constructor.
  - exact F'.
  - rewrite Hlenv. exact Hlen.
  - rewrite Efl, Epd. intros o Ho Hf. apply M0; [apply Hsubm; exact Ho|exact Hf].
  - rewrite Efl. intros y Hy. apply N5. apply Hsubp. exact Hy.
  - exact Hre.
  - intros i Hi. destruct (Nat.eq_dec i l) as [->|Hne].
    + rewrite (proj1 Egetl), (proj2 Egetl), Egv. destruct Hfg as [E|(gk & gu & Egs & Eh' & Eb' & Hbel)].
      * rewrite E. exists g0, gdone, gs. repeat split; try assumption; apply Hghost; assumption.
      * exists [], (gdone ++ gk), gu. cbn [app]. split; [exact Eh'|]. split; [|split; [|split; [|right; reflexivity]]].
        -- rewrite Eb'. change (flat []) with (@nil Worker.entry). cbn [length]. f_equal. apply stofg_app; [exact Hl|].
           intros g Hgg. destruct (Hxl l Hlw) as (_ & _ & Hd & _). rewrite <- (Hd (snd g)); [rewrite N2Nat.id; reflexivity|].
           rewrite Ehist, Egs. apply in_procs. rewrite procs_flat, !map_app. apply in_or_app. right. apply in_or_app. left. apply in_map. exact Hgg.
        -- rewrite Eah, Egs, app_assoc. reflexivity.
        -- intros g Hgg. apply in_app_or in Hgg. destruct Hgg as [Hgg|Hgg]; [apply Hghost; exact Hgg|].
           assert (Ht : (Z.of_N (tm (snd g)) < k_gvt w)%Z) by (apply Hbel; apply in_or_app; right; exact Hgg).
           split; [exact Ht|].
           assert (Hy : In (snd g) (allprocs (k_lps w))).
           { apply in_allprocs_iff. exists l. split; [exact Hlw|]. rewrite Ehist, Egs. apply in_procs. rewrite procs_flat, !map_app. apply in_or_app. right. apply in_or_app. left. apply in_map. exact Hgg. }
           destruct (Abs.doomedb cont a (amsg (snd g))) eqn:Ed; [|reflexivity]. apply (doomed_iff w a (snd g) Hr Hy) in Ed. rewrite (Hlow _ Hy Ht) in Ed. discriminate.
    + rewrite (Hget i Hne), Egv. apply Hh. exact Hi.
  - intros x0. rewrite Efl, Epd. apply Hp.
  - intros i. rewrite Ha, Efl, Epd. split; intros (j & (y & Ey & H) & ->); exists j; (split; [|reflexivity]); exists y; (split; [exact Ey|]).
    + destruct H as [H|[Hy Hf]]; [left; exact H|right]. split; [|exact Hf]. destruct (Hrel y Hy) as [H|Ht]; [exact H|].
      rewrite (Hlow y Hy Ht) in Hf. destruct Hf; discriminate.
    + destruct H as [H|[Hy Hf]]; [left; exact H|right]. split; [apply Hsubp; exact Hy|exact Hf].
  - rewrite Hn. symmetry. f_equal. exact F4.
Qed.

(* ---------- process_msg: one abstract step, or none ---------- *)
Lemma fossil_insert w m l : fossil_lp (wq_insert w m) l = wq_insert (fossil_lp w l) m.
Proof.
  unfold fossil_lp. change (get_lp (wq_insert w m) l) with (get_lp w l). change (k_gvt (wq_insert w m)) with (k_gvt w).
  destruct (newest_below (k_gvt w) (rev (x_hist (get_lp w l))) (length (x_hist (get_lp w l)))) as [past|]; [|reflexivity].
  destruct (drop_newer (x_logs (get_lp w l)) (past + 1)) as [|[ref snap] older]; reflexivity.
Qed.

(* the extracted message put back after the (lazy) fossil collection of its LP: a state related to the same abstract state *)
Lemma lazy_sim w a w1 m : R w a -> Permutation (pend w) (m :: pend w1) ->
  k_flags w1 = k_flags w -> k_next w1 = k_next w -> k_gvt w1 = k_gvt w -> k_lps w1 = k_lps w -> k_err w1 = k_err w -> k_lastgvt w1 = k_lastgvt w ->
  good w1 -> ge (k_gvt w) m ->
  let l := N.to_nat (e_dest (wm_ev m)) in
  let w2 := if Nat.eqb (x_epoch (get_lp w1 l)) (k_epoch w1) then w1 else let w' := fossil_lp w1 l in put_lp w' l (fix_bound (get_lp w' l)) in
  R (wq_insert w2 m) a /\ good w2.
Proof.
  intros Hr Hperm Ef En Eg El Ee Elg G1 Hgm l w2. pose proof Hr as [F Hlen M0 N5 Hre Hh Hp Ha Hn].
  assert (Hmin : In m (pend w)) by (apply (Permutation_in _ (Permutation_sym Hperm)); left; reflexivity).
  destruct (f_extra p w F) as [Hxp Hxl]. destruct (Hxp m Hmin) as [Hty Hdl]. fold l in Hdl.
  set (wi := wq_insert w1 m).
  assert (Gi : forall w0, good w0 -> k_gvt w0 = k_gvt w -> good (wq_insert w0 m)).
  { intros w0 [S2 S3 S4] E0. constructor; [|exact S3|exact S4]. intros y Hy. rewrite pend_insert in Hy. change (k_gvt (wq_insert w0 m)) with (k_gvt w0).
    destruct Hy as [<-|Hy]; [unfold ge; rewrite E0; exact Hgm|apply S2; exact Hy]. }
  assert (Fi : full p wi).
  { apply (full_perm p w wi F (Gi w1 G1 Eg)); [unfold wi; rewrite pend_insert; exact Hperm|exact Ef|exact El|exact En| |exact Ee].
    unfold gv. change (k_gvt wi) with (k_gvt w1). change (k_lastgvt wi) with (k_lastgvt w1). rewrite Eg, Elg. reflexivity. }
  assert (Ri : R wi a) by (apply (R_perm w wi a Hr Fi); [unfold wi; rewrite pend_insert; exact Hperm|exact Ef|exact El|exact En|exact Eg]).
  assert (Ok1 : all_ok2 p w1) by (unfold all_ok2; rewrite El; exact (f_ok p w F)).
  assert (Hl1 : l < length (k_lps w1)) by (rewrite El; exact Hdl).
  assert (HL1 : Loc (k_gvt w1) (k_flags w1) (m :: pend w1) (allprocs (k_lps w1)) (allmarks (k_lps w1)) (k_next w1)).
  { rewrite Eg, Ef, El, En. eapply Loc_perm; [exact (once_loc w F)|exact Hperm|apply Permutation_refl|apply Permutation_refl]. }
  assert (Hx1 : forall i, i < length (k_lps w1) -> lp_extra (length (k_lps w1)) i (get_lp w1 i)) by (unfold get_lp; rewrite El; exact Hxl).
  assert (He1 : k_err w1 = false) by (rewrite Ee; exact (f_err p w F)).
  assert (Hgm1 : ge (k_gvt w1) m) by (unfold ge; rewrite Eg; exact Hgm).
  destruct (lazy_fossil p ck H_time w1 l m Ok1 G1 He1 Hl1 HL1 Hgm1 Hx1) as (Ok2 & G2 & He2 & Elen2 & Ep2 & Eg2 & HL2 & Hx2).
  fold w2 in Ok2, G2, He2, Elen2, Ep2, Eg2, HL2, Hx2.
  split; [|exact G2].
  unfold w2 in *. destruct (Nat.eqb (x_epoch (get_lp w1 l)) (k_epoch w1)); [exact Ri|]. cbn zeta in *.
  set (w' := fossil_lp w1 l) in *. set (w2' := put_lp w' l (fix_bound (get_lp w' l))) in *.
  assert (Ewv : wq_insert w2' m = put_lp (fossil_lp wi l) l (fix_bound (get_lp (fossil_lp wi l) l))).
  { unfold wi. rewrite fossil_insert. reflexivity. }
  rewrite Ewv. apply (fossil_sim wi a l Ri); [rewrite <- Hlen; exact Hdl|]. rewrite <- Ewv.
  assert (Elg2 : k_lastgvt w2' = k_lastgvt w1).
  { unfold w2', w', fossil_lp. destruct (newest_below _ _ _) as [past|]; [|reflexivity]. destruct (drop_newer _ _) as [|[ref snap] older]; reflexivity. }
  constructor.
  - exact Ok2.
  - apply Gi; [exact G2|rewrite Eg2; exact Eg].
  - exact He2.
  - unfold once. rewrite pend_insert. exact HL2.
  - split; [|exact Hx2]. intros y Hy. rewrite pend_insert in Hy. change (k_lps (wq_insert w2' m)) with (k_lps w2'). rewrite Elen2, El.
    apply Hxp. destruct Hy as [<-|Hy]; [exact Hmin|]. rewrite Ep2 in Hy. apply (Permutation_in _ (Permutation_sym Hperm)). right. exact Hy.
  - change (k_gvt (wq_insert w2' m)) with (k_gvt w2'). change (k_lastgvt (wq_insert w2' m)) with (k_lastgvt w2'). rewrite Eg2, Elg2, Eg, Elg. exact (f_gvt p w F).
Qed.

Lemma process_msg_sim w a : R w a -> exists a', (a' = a \/ astep a a') /\ R (process_msg p ck w) a'.
Proof.
  intros Hr. pose proof Hr as [F Hlen M0 N5 Hre Hh Hp Ha Hn].
  destruct (process_msg_full p ck H_time H_type H_dest w F ltac:(rewrite Hlen; reflexivity)) as [F' _].
  revert F'. unfold process_msg.
  pose proof (extract_spec w (f_good p w F)) as Hex. pose proof (extract_perm w) as Hperm. pose proof (extract_frame w) as Hfr.
  destruct (wq_extract w) as [[m|] w1]; cbn [snd] in Hfr; cbn zeta in Hfr; destruct Hfr as (Ef & Enx & Eg & Elps & Eerr & Eep).
  2:{ intros F'. exists a. split; [left; reflexivity|]. apply (R_perm w w1 a Hr F' Hperm); assumption. }
  destruct Hex as (G1 & Hgm & _ & _ & _ & _ & Elg & _).
  set (l := N.to_nat (e_dest (wm_ev m))) in *.
  destruct (lazy_sim w a w1 m Hr Hperm Ef Enx Eg Elps Eerr Elg G1 Hgm) as [Rv G2]. fold l in Rv, G2.
  set (w2 := if Nat.eqb (x_epoch (get_lp w1 l)) (k_epoch w1) then w1 else let w' := fossil_lp w1 l in put_lp w' l (fix_bound (get_lp w' l))) in *.
  set (wv := wq_insert w2 m) in *.
  assert (Hpv : Permutation (pend wv) (m :: pend w2)) by (unfold wv; rewrite pend_insert; apply Permutation_refl).
  assert (Hmin : In m (pend wv)) by (unfold wv; rewrite pend_insert; left; reflexivity).
  unfold flag_add. fold (fl (k_flags w2) m).
  pose proof (once_loc wv (r_full _ _ Rv)) as L.
  destruct (l_pd _ _ _ _ _ _ L m Hmin) as [[Hf Hin]|[[Hf|Hf] Hnin]]; change (k_flags wv) with (k_flags w2) in Hf; rewrite Hf.
  - (* the notice of a processed message *)
    change (has 3 FLAG_ANTI) with true. change (N.eqb 3 (FLAG_ANTI + FLAG_PROC)) with true. change (m32 (3 + FLAG_PROC)) with 5%N. cbn iota.
    destruct (anti_index m (x_hist (get_lp (set_flags w2 (flag_set (k_flags w2) (wm_id m) 5)) l))) as [past|] eqn:Ea.
    + intros F'. destruct (sim_cancel wv a w2 m Rv Hpv eq_refl eq_refl eq_refl eq_refl Hf past Ea F') as (a' & Hs & Hr'). exists a'. split; [right; exact Hs|exact Hr'].
    + intros F'. exfalso. pose proof (f_err p _ F') as He. cbn in He. discriminate.
  - (* an ordinary message *)
    change (has 0 FLAG_ANTI) with false. change (m32 (0 + FLAG_PROC)) with 2%N. cbn iota.
    intros F'. destruct (sim_process wv a w2 m Rv Hpv eq_refl eq_refl eq_refl eq_refl eq_refl G2 Hf F') as (a' & Hs & Hr'). exists a'. split; [right; exact Hs|exact Hr'].
  - (* cancelled while pending *)
    change (has 1 FLAG_ANTI) with true. change (N.eqb 1 (FLAG_ANTI + FLAG_PROC)) with false. change (m32 (1 + FLAG_PROC)) with 3%N. cbn iota.
    intros F'. destruct (sim_drop wv a w2 m Rv Hpv eq_refl eq_refl eq_refl eq_refl Hf F') as (a' & Hs & Hr'). exists a'. split; [right; exact Hs|exact Hr'].
Qed.

(* ---------- the initial state ---------- *)
Definition ini2 (w : worker) : Prop :=
  k_epoch w = 0 /\ (forall y, In y (pend w) -> fl (k_flags w) y = 0%N) /\ (forall y, In y (allprocs (k_lps w)) -> fl (k_flags w) y = 2%N) /\
  (forall y, In y (allmarks (k_lps w)) -> In y (pend w)) /\
  (forall l, l < length (k_lps w) -> exists ms im, x_hist (get_lp w l) = flat [(ms, im)] /\ is_init im /\
                                                 base (get_lp w l) = (S (length ms), AppAbs.s0 p l) /\ x_epoch (get_lp w l) = 0).

Lemma init_lp_ini2 w : ini w -> ini2 w -> ini2 (init_lp p w (length (k_lps w))).
Proof.
  intros (HL & _ & _ & _) (E0 & P0 & P2 & PM & PH). set (l := length (k_lps w)). unfold init_lp.
  assert (Es0 : AppAbs.s0 p l = fst (lp_init p (N.of_nat l))) by reflexivity.
  destruct (lp_init p (N.of_nat l)) as [st evs]. cbn [fst] in Es0.
  set (im := mkWm (k_next w) (mkEv (N.of_nat l) 0 LP_INIT_TYPE [])).
  match goal with |- context [send_all ?w0 evs []] => set (w0' := w0) end.
  destruct (send_all_exact evs w0' []) as (X1 & X2 & X3 & X4 & X5 & X6 & X7 & X8). cbn zeta in *.
  destruct (send_all w0' evs []) as [w1 marks]. cbn [fst snd rev app] in *. subst marks.
  change (k_next w0') with (Pos.succ (k_next w)) in *. change (pend w0') with (pend w) in X3. change (k_lps w0') with (k_lps w) in X4. change (k_epoch w0') with (k_epoch w) in X6.
  set (news := mknews (Pos.succ (k_next w)) evs) in *.
  unfold once in HL.
  assert (Hold : forall y, In y (pend w ++ ([] ++ allprocs (k_lps w)) ++ allmarks (k_lps w)) -> fl (k_flags w1) y = fl (k_flags w) y).
  { intros y Hy. pose proof (l_lt _ _ _ _ _ _ HL y Hy) as Hlt. rewrite X8.
    - unfold w0'. cbn [k_flags]. apply fl_set_other. intro E. rewrite E in Hlt. exact (Pos.lt_irrefl _ Hlt).
    - intros z Hz E. apply (mknews_ids_ge evs _ z) in Hz. rewrite E in Hz. apply (Pos.lt_irrefl (wm_id y)). eapply Pos.lt_le_trans; [exact Hlt|]. eapply Pos.le_trans; [|exact Hz]. apply Pos.lt_le_incl. apply Pos.lt_succ_diag_r. }
  assert (Him : fl (k_flags w1) im = 2%N).
  { rewrite X8; [unfold w0'; cbn [k_flags]; apply (fl_set_same (k_flags w) im 2)|].
    intros z Hz E. apply (mknews_ids_ge evs _ z) in Hz. rewrite E in Hz. cbn in Hz. exact (Pos.lt_irrefl _ (Pos.lt_le_trans _ _ _ (Pos.lt_succ_diag_r _) Hz)). }
  unfold ini2. cbn [set_lps k_epoch k_flags k_lps]. change (pend (set_lps w1 _)) with (pend w1). rewrite X3, X6, X4.
  rewrite allprocs_snoc, allmarks_snoc. cbn [x_hist]. rewrite procs_app, marks_app, procs_map_sent, marks_map_sent. cbn [app procs_of marks_of flat_map]. rewrite app_nil_r.
  split; [exact E0|]. split; [|split; [|split]].
  - intros y Hy. apply in_app_or in Hy. destruct Hy as [Hy|Hy]; [apply X7; apply in_rev; exact Hy|]. rewrite Hold by (rewrite !in_app_iff; tauto). apply P0. exact Hy.
  - intros y Hy. apply in_app_or in Hy. destruct Hy as [Hy|[<-|[]]]; [|exact Him]. rewrite Hold by (cbn [app]; rewrite !in_app_iff; tauto). apply P2. exact Hy.
  - intros y Hy. apply in_or_app. apply in_app_or in Hy. destruct Hy as [Hy|Hy]; [right; apply PM; exact Hy|left; apply -> in_rev; exact Hy].
  - rewrite app_length. cbn [length]. fold l. intros i Hi. unfold get_lp. cbn [set_lps k_lps].
    destruct (Nat.lt_ge_cases i l) as [Hlt|Hge].
    + rewrite app_nth1 by exact Hlt. apply PH. exact Hlt.
    + assert (i = l) by lia. subst i. rewrite app_nth2 by (fold l; lia). fold l. rewrite Nat.sub_diag. cbn [nth].
      exists news, im. cbn [x_hist x_epoch]. split; [unfold flat; cbn [flat_map]; rewrite app_nil_r; reflexivity|]. split; [reflexivity|]. split; [|reflexivity].
      unfold base. cbn [x_logs last]. rewrite app_length, map_length. cbn [length]. rewrite Es0. f_equal. lia.
Qed.

Lemma w_init_ini2 : ini2 (w_init p).
Proof.
  unfold w_init. set (w0 := mkWk (PositiveMap.empty N) [] [] [] [] 1%positive 0 0 0 false).
  assert (H0 : ini w0 /\ ini2 w0).
  { split; [split; [apply Loc_empty|split; [split; [intros m []|intros l Hl; cbn in Hl; lia]|split; reflexivity]]|].
    split; [reflexivity|]. split; [intros y []|]. split; [intros y []|]. split; [intros y []|intros l Hl; cbn in Hl; lia]. }
  assert (G : forall k w, ini w /\ ini2 w -> ini2 (fold_left (init_lp p) (seq (length (k_lps w)) k) w)).
  { induction k as [|k IH]; intros w [Hw Hw2]; cbn [seq fold_left]; [exact Hw2|].
    destruct (init_lp_ini p H_time H_type H_dest (fun me e => app_init p me e Htypes) w Hw) as [H1 H2]. rewrite <- H2. apply IH. split; [exact H1|apply init_lp_ini2; assumption]. }
  exact (G (N.to_nat (p_lps p)) w0 H0).
Qed.

Lemma R_init : R (w_init p) (Bridge.a0 cont init0 N0).
Proof.
  destruct (w_init_full p H_time H_type H_dest (fun me e => app_init p me e Htypes)) as [F Hlen].
  destruct w_init_ini2 as (E0 & P0 & P2 & PM & PH).
  constructor; cbn [Bridge.a0 Abs.hist Abs.pool Abs.antis Abs.nid].
  - exact F.
  - exact Hlen.
  - intros o Ho _. apply PM. exact Ho.
  - intros y Hy. rewrite (P2 y Hy). discriminate.
  - apply Bridge.r0.
  - intros l Hl. destruct (PH l ltac:(rewrite Hlen; exact Hl)) as (ms & im & E1 & E2 & E3 & _). exists [(ms, im)], [], []. split; [exact E1|]. split; [|split; [reflexivity|split; [intros g []|left; exists ms, im; repeat split; assumption]]].
    rewrite E3. unfold flat. cbn [flat_map app]. rewrite app_nil_r. unfold flat1. rewrite app_length, map_length. cbn [length fst snd]. f_equal. lia.
  - intros x0. unfold init0. rewrite in_map_iff. split.
    + intros (y & <- & Hy). exists y. split; [split; [exact Hy|left; apply P0; exact Hy]|reflexivity].
    + intros (y & [Hy _] & ->). exists y. split; [reflexivity|exact Hy].
  - intros i. split; [intros []|]. intros (j & (y & _ & H) & _). destruct H as [[Hy Hf]|[Hy Hf]]; [rewrite (P0 y Hy) in Hf; discriminate|rewrite (P2 y Hy) in Hf; destruct Hf; discriminate].
  - reflexivity.
Qed.

(* ---------- every script ---------- *)
Lemma iter_sim k : forall w a, R w a -> exists a', R (iter k (process_msg p ck) w) a'.
Proof.
  induction k as [|k IH]; intros w a Hr; cbn [iter]; [exists a; exact Hr|].
  destruct (process_msg_sim w a Hr) as (a1 & _ & Hr1). exact (IH _ a1 Hr1).
Qed.

Lemma transfer_sim w a : R w a -> R (wq_transfer w) a.
Proof.
  intros Hr. apply (R_perm w (wq_transfer w) a Hr); try reflexivity; [apply transfer_full; exact (r_full _ _ Hr)|apply Permutation_sym; apply transfer_perm].
Qed.

Lemma run_out_sim fuel : forall w a, R w a -> exists a', R (fst (run_out p ck fuel w)) a'.
Proof.
  induction fuel as [|fuel IH]; intros w a Hr; cbn [run_out]; [exists a; exact Hr|].
  unfold wq_peek. pose proof (transfer_sim w a Hr) as Hr1. destruct (k_heap (wq_transfer w)); cbn [fst]; [exists a; exact Hr1|].
  destruct (process_msg_sim _ a Hr1) as (a1 & _ & Hr2). exact (IH _ a1 Hr2).
Qed.

(* a GVT announcement: no abstract step; the new value is at or above the old one, so released messages stay below it *)
Lemma announce_sim d w a : R w a -> R (announce d w) a.
Proof.
  intros Hr. destruct (announce_full p ck d w (r_full _ _ Hr)) as [Fa _].
  pose proof (transfer_sim w a Hr) as Hr1. revert Fa. unfold announce, wq_peek. set (w1 := wq_transfer w) in *.
  destruct (min_held (k_held w1) (match k_heap w1 with [] => None | m :: _ => Some (e_t (wm_ev m)) end)) as [t|]; [|intros _; exact Hr1].
  destruct (Z.ltb_spec (Z.of_N t - Z.of_N d) (k_lastgvt w1)) as [Hlt|Hge]; cbn [orb]; [intros _; exact Hr1|].
  destruct (Z.leb (Z.of_N t - Z.of_N d) 0); [intros _; exact Hr1|].
  intros Fa. destruct Hr1 as [F1 Hlen M0 N5 Hre Hh Hp Ha Hn]. constructor; try assumption.
  intros l Hl. destruct (Hh l Hl) as (g0 & gdone & gs & E1 & E2 & E3 & E4 & E5). exists g0, gdone, gs. split; [exact E1|]. split; [exact E2|]. split; [exact E3|]. split; [|exact E5].
  intros g Hgg. destruct (E4 g Hgg) as [H1 H2]. split; [|exact H2]. cbn [k_gvt]. pose proof (f_gvt p w1 F1). lia.
Qed.

Lemma wstep_sim w a o : R w a -> exists a', R (wstep p ck w o) a'.
Proof.
  intros Hr. pose proof (r_full _ _ Hr) as F. pose proof (r_len _ _ Hr) as Hlen.
  destruct o as [k|k|i| |d|fuel]; cbn [wstep].
  - apply (iter_sim k w a Hr).
  - exists a. destruct (hold_frame k w) as (F1 & F2 & F3 & F4 & F5 & F6). unfold gv in F5. injection F5 as F5 _.
    apply (R_perm w (hold k w) a Hr); try assumption.
    apply (full_perm p w); try assumption; [apply (hold_good k w (f_good p w F))|unfold gv; destruct (hold_frame k w) as (_ & _ & _ & _ & G5 & _); exact G5].
  - exists a. destruct (unhold_frame i w) as (F1 & F2 & F3 & F4 & F5 & F6). pose proof F5 as G5. unfold gv in F5. injection F5 as F5 _.
    apply (R_perm w (unhold i w) a Hr); try assumption.
    apply (full_perm p w); try assumption. apply (unhold_good i w (f_good p w F)).
  - exists a. destruct (unhold_all_frame w) as (F1 & F2 & F3 & F4 & F5 & F6). pose proof F5 as G5. unfold gv in F5. injection F5 as F5 _.
    apply (R_perm w (unhold_all w) a Hr); try assumption.
    apply (full_perm p w); try assumption. apply (unhold_all_good w (f_good p w F)).
  - exists a. apply announce_sim. exact Hr.
  - destruct (unhold_all_frame w) as (F1 & F2 & F3 & F4 & F5 & F6). pose proof F5 as G5. unfold gv in F5. injection F5 as F5 _.
    assert (Hr1 : R (unhold_all w) a).
    { apply (R_perm w (unhold_all w) a Hr); try assumption. apply (full_perm p w); try assumption. apply (unhold_all_good w (f_good p w F)). }
    apply (run_out_sim fuel _ a Hr1).
Qed.

(* every script of the driver -- processing, holding and releasing messages, GVT announcements (and the fossil collections they trigger),
   running the queue out -- keeps the worker related to a reachable state of the abstract Time Warp machine *)
Theorem worker_refines_abstract (ops : list wop) : exists a, R (fold_left (wstep p ck) ops (w_init p)) a.
Proof.
  assert (G : forall ops w a, R w a -> exists a', R (fold_left (wstep p ck) ops w) a').
  { induction ops0 as [|o r IH]; intros w a Hr; cbn [fold_left]; [exists a; exact Hr|].
    destruct (wstep_sim w a o Hr) as (a1 & Hr1). exact (IH _ a1 Hr1). }
  exact (G ops (w_init p) _ R_init).
Qed.

(* ---------- the payoff: process.c's histories below any valid bound are the sequential execution ---------- *)
Definition evc (y : wmsg) : cont := cont_of (wm_ev y).
(* the processed messages an LP still retains, LP_INIT excluded *)
Definition retained (w : worker) (l : nat) : list wmsg :=
  filter (fun y => negb (N.eqb (e_type (wm_ev y)) LP_INIT_TYPE)) (procs_of (x_hist (get_lp w l))).

Lemma retained_groups w l (g0 gs : list group) : x_hist (get_lp w l) = flat (g0 ++ gs) -> fst (base (get_lp w l)) = length (flat g0) ->
  lp_extra (length (k_lps w)) l (get_lp w l) -> ((exists ms im, g0 = [(ms, im)] /\ is_init im) \/ g0 = []) -> retained w l = map snd gs.
Proof.
  intros Eh Eb (_ & Hty & _) Hshape. unfold retained. rewrite Eh, procs_flat, map_app, filter_app.
  assert (E0 : filter (fun y => negb (N.eqb (e_type (wm_ev y)) LP_INIT_TYPE)) (map snd g0) = []).
  { destruct Hshape as [(ms & im & -> & Hi)| ->]; [|reflexivity]. cbn [map filter snd]. unfold is_init in Hi. rewrite Hi, N.eqb_refl. reflexivity. }
  rewrite E0. cbn [app].
  assert (Hall : forall y, In y (map snd gs) -> negb (N.eqb (e_type (wm_ev y)) LP_INIT_TYPE) = true).
  { intros y Hy. assert (Ht : tyok y).
    { apply Hty. rewrite Eb, Eh. assert (E1 : skipn (length (flat g0)) (flat (g0 ++ gs)) = flat gs) by apply skipn_flat_app. rewrite E1. apply in_procs. rewrite procs_flat. exact Hy. }
    unfold tyok in Ht. apply negb_true_iff. apply N.eqb_neq. lia. }
  induction (map snd gs) as [|y r IH]; [reflexivity|]. cbn [filter]. rewrite (Hall y (or_introl eq_refl)). f_equal. apply IH. intros z Hz. apply Hall. right. exact Hz.
Qed.

Theorem worker_below_bound_is_sequential (ops : list wop) (below : cont -> bool) :
  (forall c1 c2, ~ Abs.tlt cont tltb c2 c1 -> below c2 = true -> below c1 = true) ->
  let w := fold_left (wstep p ck) ops (w_init p) in
  (forall y, In y (pend w) -> below (evc y) = false) ->
  forall tr, Peel.seqrun cont (Abs.clt cont cltb) lpstate (Bridge.handle_g cont lpstate (ahandle p) below) (AppAbs.s0 p) (Bridge.Pg cont init0 below) tr ->
  forall l, l < n -> exists released, (forall y, In y released -> (Z.of_N (tm y) < k_gvt w)%Z) /\
    Peel.proj cont l tr = map evc (filter (fun y => below (evc y)) (released ++ retained w l)).
Proof.
  intros Hb w Hpend tr Hrun l Hl. destruct (worker_refines_abstract ops) as (a & Hr). fold w in Hr.
  pose proof Hr as [F Hlen M0 N5 Hre Hh Hp Ha _].
  assert (G : Bridge.gvt_ok cont below a).
  { constructor.
    - intros x0 Hx. apply Hp in Hx. destruct Hx as (y & [Hy _] & ->). unfold Bridge.belowm. cbn [amsg Abs.mc]. apply Hpend. exact Hy.
    - intros l0 e He Hd. destruct (Nat.lt_ge_cases l0 n) as [Hl0|Hl0].
      + destruct (Hh l0 Hl0) as (g0 & gdone & gs & E1 & _ & E4 & Hghost & _). rewrite E4 in He. apply in_map_iff in He. destruct He as (g & <- & Hgg).
        cbn [ent Abs.em snd] in Hd. apply in_app_or in Hgg. destruct Hgg as [Hgg|Hgg]; [destruct (Hghost g Hgg) as [_ Hnd]; congruence|].
        assert (Hpr : In (snd g) (allprocs (k_lps w))).
        { apply in_allprocs_iff. exists l0. split; [rewrite Hlen; exact Hl0|]. rewrite E1. apply in_procs. rewrite procs_flat, map_app. apply in_or_app. right. apply in_map. exact Hgg. }
        apply (doomed_iff w a (snd g) Hr Hpr) in Hd.
        destruct (l_pr _ _ _ _ _ _ (once_loc w F) (snd g) Hpr) as [[_ Hin]|[[H2 _]|[H5 _]]]; [|congruence|congruence].
        unfold Bridge.belowe, Abs.con. cbn [ent Abs.em snd amsg Abs.mc]. apply Hpend. exact Hin.
      + exfalso. (* histories of indexes beyond n are empty in every reachable abstract state *)
        assert (Hemp : forall a0, areach a0 -> forall k, n <= k -> Abs.hist cont a0 k = []).
        { intros a0 R0. induction R0 as [|a0 a1 R0 IH S]; intros k Hk; [reflexivity|].
          destruct S; cbn [Abs.hist]; try (apply IH; exact Hk); unfold Abs.upd; destruct (Nat.eqb_spec k l1); try lia; apply IH; exact Hk. }
        rewrite (Hemp a Hre l0 Hl0) in He. destruct He. }
  rewrite (Bridge.time_warp_below_gvt_is_sequential cont cltb clt_irrefl clt_trans clt_total tltb tlt_clt clt_not_tlt tlt_negtrans lpstate n (AppAbs.s0 p) (ahandle p)
             (avalid p Hvalid) init0 ltac:(intros x0 Hx; unfold init0 in Hx; apply in_map_iff in Hx; destruct Hx as (y & <- & Hy); cbn [amsg Abs.mdest];
                                          destruct (w_init_full p H_time H_type H_dest (fun me e => app_init p me e Htypes)) as [F0 Hl0]; destruct (f_extra p _ F0) as [Hxp _]; destruct (Hxp y Hy) as [_ Hd]; rewrite Hl0 in Hd; exact Hd)
             below Hb init0_nodup N0 a init0_lt Hre G tr Hrun l Hl).
  unfold Bridge.Hg. destruct (Hh l Hl) as (g0 & gdone & gs & E1 & E2 & E4 & Hghost & Hshape). rewrite E4.
  exists (map snd gdone). split.
  { intros y Hy. apply in_map_iff in Hy. destruct Hy as (g & <- & Hgg). apply (Hghost g Hgg). }
  assert (Hlw : l < length (k_lps w)) by (rewrite Hlen; exact Hl).
  rewrite (retained_groups w l g0 gs E1 ltac:(rewrite E2; reflexivity) (proj2 (f_extra p w F) l Hlw)
             ltac:(destruct Hshape as [(ms & im & E & Hi & _)|E]; [left; exists ms, im; split; assumption|right; exact E])).
  rewrite <- map_app.
  clear. induction (gdone ++ gs) as [|g r IH]; [reflexivity|]. cbn [map filter]. change (Bridge.belowe cont below (ent g)) with (below (evc (snd g))).
  destruct (below (evc (snd g))); cbn [map]; [change (Abs.con cont (ent g)) with (evc (snd g)); f_equal; exact IH|exact IH].
Qed.

(* without a GVT above 0 nothing has been released: the retained history itself is the sequential one *)
Corollary worker_below_bound_gvt0 (ops : list wop) (below : cont -> bool) :
  (forall c1 c2, ~ Abs.tlt cont tltb c2 c1 -> below c2 = true -> below c1 = true) ->
  let w := fold_left (wstep p ck) ops (w_init p) in
  (k_gvt w <= 0)%Z -> (forall y, In y (pend w) -> below (evc y) = false) ->
  forall tr, Peel.seqrun cont (Abs.clt cont cltb) lpstate (Bridge.handle_g cont lpstate (ahandle p) below) (AppAbs.s0 p) (Bridge.Pg cont init0 below) tr ->
  forall l, l < n -> Peel.proj cont l tr = map evc (filter (fun y => below (evc y)) (retained w l)).
Proof.
  intros Hb w Hg Hpend tr Hrun l Hl. destruct (worker_below_bound_is_sequential ops below Hb Hpend tr Hrun l Hl) as (rel & Hrel & E).
  fold w in Hrel, E. destruct rel as [|y r]; [exact E|]. specialize (Hrel y (or_introl eq_refl)). lia.
Qed.

(* at quiescence (nothing pending anywhere) every LP has processed exactly its sequential dispatch sequence, in that order:
   what fossil collection has released, followed by what is retained *)
Corollary worker_quiescent_is_sequential (ops : list wop) :
  let w := fold_left (wstep p ck) ops (w_init p) in
  pend w = [] ->
  forall tr, Peel.seqrun cont (Abs.clt cont cltb) lpstate (Bridge.handle_g cont lpstate (ahandle p) (fun _ => true)) (AppAbs.s0 p) (Bridge.Pg cont init0 (fun _ => true)) tr ->
  forall l, l < n -> exists released, (forall y, In y released -> (Z.of_N (tm y) < k_gvt w)%Z) /\ Peel.proj cont l tr = map evc (released ++ retained w l).
Proof.
  intros w Hq tr Hrun l Hl.
  destruct (worker_below_bound_is_sequential ops (fun _ => true) (fun _ _ _ _ => eq_refl) ltac:(fold w; rewrite Hq; intros y []) tr Hrun l Hl) as (rel & Hrel & E).
  fold w in Hrel, E. exists rel. split; [exact Hrel|]. rewrite E. f_equal. clear. induction (rel ++ retained w l) as [|y r IH]; [reflexivity|]. cbn [filter]. rewrite IH. reflexivity.
Qed.

(* ---------- the LP states ---------- *)
(* in a related state every LP's state is the abstract one: the handlers folded over the LP's (released and retained) history *)
Lemma R_state w a l : R w a -> l < n -> x_st (get_lp w l) = Abs.stof cont lpstate (AppAbs.s0 p) (ahandle p) l (Abs.hist cont a l).
Proof.
  intros Hr Hl. pose proof Hr as [F Hlen _ _ _ Hh _ _ _].
  assert (Hlw : l < length (k_lps w)) by (rewrite Hlen; exact Hl).
  destruct (Hh l Hl) as (g0 & gdone & gs & Ehist & Ebase & Eah & _ & _).
  destruct (get_ok2 p w l (f_ok p w F) Hlw) as [(newer & r0 & s0' & El & _ & _ & Hst) _].
  pose proof (base_eq (get_lp w l) newer r0 s0' El) as Eb. rewrite Ebase in Eb. injection Eb as <- <-.
  rewrite Hst, Ehist, skipn_flat_app, Eah. apply stofg_app; [exact Hl|].
  intros g Hgg. destruct (proj2 (f_extra p w F) l Hlw) as (_ & _ & Hd & _). rewrite <- (Hd (snd g)); [rewrite N2Nat.id; reflexivity|].
  rewrite Ehist. apply in_procs. rewrite procs_flat, map_app. apply in_or_app. right. apply in_map. exact Hgg.
Qed.

(* C05 across the whole run: after every script every LP's state is the handlers folded over the history the related abstract state
   records for it (what fossil collection released followed by what is retained) -- whatever rollbacks, restores and silent
   re-executions happened on the way *)
Theorem worker_state_is_fold_of_history (ops : list wop) :
  let w := fold_left (wstep p ck) ops (w_init p) in
  exists a, R w a /\ forall l, l < n -> x_st (get_lp w l) = Abs.stof cont lpstate (AppAbs.s0 p) (ahandle p) l (Abs.hist cont a l).
Proof.
  intros w. destruct (worker_refines_abstract ops) as (a & Hr). fold w in Hr. exists a. split; [exact Hr|]. intros l Hl. apply R_state; assumption.
Qed.

(* C01 on states: at quiescence every LP's state is the state the sequential execution leaves it in *)
Theorem worker_quiescent_state_is_sequential (ops : list wop) :
  let w := fold_left (wstep p ck) ops (w_init p) in
  pend w = [] ->
  forall tr, Peel.seqrun cont (Abs.clt cont cltb) lpstate (Bridge.handle_g cont lpstate (ahandle p) (fun _ => true)) (AppAbs.s0 p) (Bridge.Pg cont init0 (fun _ => true)) tr ->
  forall l, l < n -> x_st (get_lp w l) = fold_left (fun s c => fst (ahandle p l s c)) (Peel.proj cont l tr) (AppAbs.s0 p l).
Proof.
  intros w Hq tr Hrun l Hl. destruct (worker_refines_abstract ops) as (a & Hr). fold w in Hr.
  pose proof Hr as [F Hlen M0 N5 Hre Hh Hp Ha _].
  assert (G : Bridge.gvt_ok cont (fun _ => true) a).
  { constructor.
    - intros x0 Hx. apply Hp in Hx. destruct Hx as (y & [Hy _] & _). rewrite Hq in Hy. destruct Hy.
    - intros l0 e He Hd. destruct (Nat.lt_ge_cases l0 n) as [Hl0|Hl0].
      + destruct (Hh l0 Hl0) as (g0 & gdone & gs & E1 & _ & E4 & Hghost & _). rewrite E4 in He. apply in_map_iff in He. destruct He as (g & <- & Hgg).
        cbn [ent Abs.em snd] in Hd. apply in_app_or in Hgg. destruct Hgg as [Hgg|Hgg]; [destruct (Hghost g Hgg) as [_ Hnd]; congruence|].
        assert (Hpr : In (snd g) (allprocs (k_lps w))).
        { apply in_allprocs_iff. exists l0. split; [rewrite Hlen; exact Hl0|]. rewrite E1. apply in_procs. rewrite procs_flat, map_app. apply in_or_app. right. apply in_map. exact Hgg. }
        apply (doomed_iff w a (snd g) Hr Hpr) in Hd.
        destruct (l_pr _ _ _ _ _ _ (once_loc w F) (snd g) Hpr) as [[_ Hin]|[[H2 _]|[H5 _]]]; [|congruence|congruence].
        rewrite Hq in Hin. destruct Hin.
      + exfalso.
        assert (Hemp : forall a0, areach a0 -> forall k, n <= k -> Abs.hist cont a0 k = []).
        { intros a0 R0. induction R0 as [|a0 a1 R0 IH S]; intros k Hk; [reflexivity|].
          destruct S; cbn [Abs.hist]; try (apply IH; exact Hk); unfold Abs.upd; destruct (Nat.eqb_spec k l1); try lia; apply IH; exact Hk. }
        rewrite (Hemp a Hre l0 Hl0) in He. destruct He. }
  rewrite (Bridge.time_warp_below_gvt_is_sequential cont cltb clt_irrefl clt_trans clt_total tltb tlt_clt clt_not_tlt tlt_negtrans lpstate n (AppAbs.s0 p) (ahandle p)
             (avalid p Hvalid) init0 ltac:(intros x0 Hx; unfold init0 in Hx; apply in_map_iff in Hx; destruct Hx as (y & <- & Hy); cbn [amsg Abs.mdest];
                                          destruct (w_init_full p H_time H_type H_dest (fun me e => app_init p me e Htypes)) as [F0 Hl0]; destruct (f_extra p _ F0) as [Hxp _]; destruct (Hxp y Hy) as [_ Hd]; rewrite Hl0 in Hd; exact Hd)
             (fun _ => true) (fun _ _ _ _ => eq_refl) init0_nodup N0 a init0_lt Hre G tr Hrun l Hl).
  rewrite (R_state w a l Hr Hl). unfold Bridge.Hg, Abs.stof.
  assert (Ef : filter (Bridge.belowe cont (fun _ => true)) (Abs.hist cont a l) = Abs.hist cont a l).
  { induction (Abs.hist cont a l) as [|e r IH]; [reflexivity|]. cbn [filter]. unfold Bridge.belowe at 1. rewrite IH. reflexivity. }
  rewrite Ef. clear. generalize (AppAbs.s0 p l). induction (Abs.hist cont a l) as [|e r IH]; intros st; [reflexivity|]. cbn [map fold_left]. apply IH.
Qed.

(* C03 at process.c level: for every bound g at or below the worker's GVT, what fossil collection has released followed by the retained
   entries below g is exactly the LP's part of the sequential execution below g; at g = GVT nothing released is filtered away *)
Theorem worker_committed_is_sequential (ops : list wop) (g : N) :
  let w := fold_left (wstep p ck) ops (w_init p) in
  (Z.of_N g <= k_gvt w)%Z ->
  forall tr, Peel.seqrun cont (Abs.clt cont cltb) lpstate (Bridge.handle_g cont lpstate (ahandle p) (below_ts g)) (AppAbs.s0 p) (Bridge.Pg cont init0 (below_ts g)) tr ->
  forall l, l < n -> exists released, (forall y, In y released -> (Z.of_N (tm y) < k_gvt w)%Z) /\
    Peel.proj cont l tr = map evc (filter (fun y => below_ts g (evc y)) (released ++ retained w l)) /\
    (Z.of_N g = k_gvt w -> Peel.proj cont l tr = map evc released ++ map evc (filter (fun y => below_ts g (evc y)) (retained w l))).
Proof.
  intros w Hg tr Hrun l Hl.
  destruct (worker_refines_abstract ops) as (a & Hr). fold w in Hr.
  assert (Hpend : forall y, In y (pend w) -> below_ts g (evc y) = false).
  { intros y Hy. pose proof (s_pend w (f_good p w (r_full _ _ Hr)) y Hy) as Hge. unfold ge in Hge. unfold below_ts, evc, cont_of, c_t. cbn [fst]. apply N.ltb_ge. unfold tm in Hge. lia. }
  destruct (worker_below_bound_is_sequential ops (below_ts g) (below_ts_down g) Hpend tr Hrun l Hl) as (rel & Hrel & E). fold w in Hrel, E.
  exists rel. split; [exact Hrel|]. split; [exact E|]. intros Eg. rewrite E, filter_app, map_app. f_equal. f_equal.
  assert (Hall : forall y, In y rel -> below_ts g (evc y) = true).
  { intros y Hy. specialize (Hrel y Hy). unfold below_ts, evc, cont_of, c_t. cbn [fst]. apply N.ltb_lt. unfold tm in Hrel. lia. }
  clear -Hall. induction rel as [|y r IH]; [reflexivity|]. cbn [filter]. rewrite (Hall y (or_introl eq_refl)). f_equal. apply IH. intros z Hz. apply Hall. right. exact Hz.
Qed.
End Sim.
