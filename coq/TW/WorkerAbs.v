(* Refinement of the worker model (TW/Worker.v: process.c op by op) to the abstract Time Warp machine (Abs/Abs.v), for scripts
   without GVT announcements (histories complete: no fossil collection): every state the worker reaches by deliveries, late
   hand-backs and cancellations in any order is related to a reachable state of the abstract machine, so the theorem of the
   abstract theory applies to process.c's histories: below every valid bound they are the sequential execution.
   Part 1: contents, grouping of the flat history, the order. *)
From Coq Require Import List ZArith NArith PArith Bool Arith Lia Sorted Permutation FMapPositive.
From RS Require Import Base.Lex Order.MsgOrderDefs Order.MsgOrderProofs Heap.HeapList TW.App TW.Seq TW.Worker TW.WorkerProofs TW.WorkerSafety
  TW.WorkerOnce TW.WorkerOnceProofs TW.WorkerOnceApp TW.AppAbs.
From RS.Abs Require Peel Abs Bridge.
Import ListNotations.

Definition amsg (m : wmsg) : Abs.msg cont :=
  Abs.Build_msg cont (Pos.to_nat (wm_id m)) (N.to_nat (e_dest (wm_ev m))) (cont_of (wm_ev m)).

Lemma amsg_inj a b : amsg a = amsg b -> a = b.
Proof.
  destruct a as [ia [da ta ya pa]], b as [ib [db tb yb pb]]. unfold amsg, cont_of. cbn. intros H. injection H as H1 H2 H3 H4 H5.
  apply Pos2Nat.inj in H1. apply N2Nat.inj in H2. subst. reflexivity.
Qed.
Lemma amsg_id_inj a b : Abs.mid cont (amsg a) = Abs.mid cont (amsg b) -> wm_id a = wm_id b.
Proof. cbn. apply Pos2Nat.inj. Qed.

(* ---------- groups: the markers of the messages an event sent, then the event ---------- *)
Definition group := (list wmsg * wmsg)%type.
Definition flat1 (g : group) : list entry := map ESent (fst g) ++ [EProc (snd g)].
Definition flat (gs : list group) : list entry := flat_map flat1 gs.
Definition ent (g : group) : Abs.entry cont := Abs.Build_entry cont (amsg (snd g)) (map amsg (fst g)).

Lemma flat_app a b : flat (a ++ b) = flat a ++ flat b.
Proof. apply flat_map_app. Qed.
Lemma procs_flat gs : procs_of (flat gs) = map snd gs.
Proof.
  induction gs as [|g gs IH]; [reflexivity|]. cbn [flat flat_map map]. rewrite procs_app. fold (flat gs). rewrite IH.
  unfold flat1. rewrite procs_app, procs_map_sent. reflexivity.
Qed.
Lemma marks_flat gs : marks_of (flat gs) = flat_map fst gs.
Proof.
  induction gs as [|g gs IH]; [reflexivity|]. cbn [flat flat_map]. rewrite marks_app. fold (flat gs). rewrite IH.
  unfold flat1. rewrite marks_app, marks_map_sent. cbn. rewrite app_nil_r. reflexivity.
Qed.

Lemma flat_cons ms m gs : flat ((ms, m) :: gs) = map ESent ms ++ EProc m :: flat gs.
Proof. unfold flat. cbn [flat_map]. unfold flat1 at 1. cbn [fst snd]. rewrite <- app_assoc. reflexivity. Qed.

(* a well-formed history (hist_ok) is a sequence of groups *)
Lemma hist_ok_groups p es : forall st pend, hist_ok p st pend es ->
  es = [] \/ exists ms m gs, es = map ESent ms ++ EProc m :: flat gs.
Proof.
  induction es as [|e es IH]; intros st pend H; [left; reflexivity|right].
  destruct e as [m|m]; cbn [hist_ok] in H.
  - destruct (IH _ _ H) as [->|(ms & m' & gs & ->)].
    + cbn in H. destruct pend; discriminate.
    + exists (m :: ms), m', gs. reflexivity.
  - destruct H as [_ H]. destruct (IH _ _ H) as [->|(ms & m' & gs & ->)].
    + exists [], m, []. reflexivity.
    + exists [], m, ((ms, m') :: gs). rewrite flat_cons. reflexivity.
Qed.
Lemma hist_ok_flat p es st : hist_ok p st [] es -> exists gs, es = flat gs.
Proof.
  intros H. destruct (hist_ok_groups p es st [] H) as [->|(ms & m & gs & ->)]; [exists []; reflexivity|].
  exists ((ms, m) :: gs). rewrite flat_cons. reflexivity.
Qed.

(* cutting at a group boundary *)
Lemma flat_cut gs : forall k, bnd (flat gs) k -> k <= length (flat gs) ->
  exists gk gu, gs = gk ++ gu /\ firstn k (flat gs) = flat gk /\ skipn k (flat gs) = flat gu.
Proof.
  induction gs as [|g gs IH]; intros k Hb Hk.
  - cbn in Hk. assert (k = 0) by lia. subst. exists [], []. repeat split.
  - destruct (Nat.eq_dec k 0) as [->|Hk0]; [exists [], (g :: gs); repeat split|].
    cbn [flat flat_map] in *. fold (flat gs) in *.
    assert (Hlen : length (flat1 g) = S (length (fst g))) by (unfold flat1; rewrite app_length, map_length; cbn; lia).
    destruct (Nat.lt_ge_cases k (length (flat1 g))) as [Hlt|Hge].
    + (* inside the first group: impossible for a boundary *)
      exfalso. destruct Hb as [->|(m & Hn)]; [lia|]. rewrite nth_error_app1 in Hn by lia.
      unfold flat1 in Hn. rewrite nth_error_app1 in Hn by (rewrite map_length; lia).
      apply nth_error_In in Hn. apply in_map_iff in Hn. destruct Hn as (z & Hz & _). discriminate.
    + destruct (IH (k - length (flat1 g))) as (gk & gu & E & E1 & E2).
      * destruct (Nat.eq_dec k (length (flat1 g))) as [->|Hne]; [left; lia|right].
        destruct Hb as [->|(m & Hn)]; [lia|]. exists m. rewrite nth_error_app2 in Hn by lia.
        replace (pred (k - length (flat1 g))) with (pred k - length (flat1 g)) by lia. exact Hn.
      * rewrite app_length in Hk. lia.
      * exists (g :: gk), gu. split; [rewrite E; reflexivity|]. cbn [flat flat_map]. fold (flat gk).
        rewrite firstn_app, skipn_app. rewrite firstn_all2 by lia. rewrite skipn_all2 by lia. cbn [app].
        rewrite E1, E2. split; reflexivity.
Qed.

(* the split of a list into "kept prefix whose last element fails p" and "suffix that satisfies p" is unique *)
Lemma keep_of_unique {A} (p : A -> bool) (k u : list A) :
  (forall x, In x u -> p x = true) -> (k = [] \/ exists k' x, k = k' ++ [x] /\ p x = false) ->
  Abs.keep_of p (k ++ u) = k /\ Abs.undo_of p (k ++ u) = u.
Proof.
  intros Hu Hk. unfold Abs.keep_of, Abs.undo_of. rewrite rev_app_distr.
  assert (T : forall l r, (forall x, In x l -> p x = true) -> (r = [] \/ exists x r', r = x :: r' /\ p x = false) ->
              Abs.take_while p (l ++ r) = l /\ Abs.drop_while p (l ++ r) = r).
  { induction l as [|y l IH]; intros r Hl Hr; cbn.
    - destruct Hr as [->|(x & r' & -> & Hx)]; cbn; [split; reflexivity|rewrite Hx; split; reflexivity].
    - rewrite (Hl y (or_introl eq_refl)). destruct (IH r (fun x Hx => Hl x (or_intror Hx)) Hr) as [E1 E2]. rewrite E1, E2. split; reflexivity. }
  destruct (T (rev u) (rev k)) as [E1 E2].
  - intros x Hx. apply Hu. apply in_rev. exact Hx.
  - destruct Hk as [->|(k' & x & -> & Hx)]; [left; reflexivity|right]. exists x, (rev k'). rewrite rev_app_distr. split; [reflexivity|exact Hx].
  - rewrite E1, E2, !rev_involutive. split; reflexivity.
Qed.

(* ---------- the order ---------- *)
Lemma rt_wf f m : wf_msg (rt_msg f m).
Proof. unfold wf_msg, rt_msg. cbn. rewrite Nat2Z.id, map_length. lia. Qed.

Lemma content_rt f m : content (rt_msg f m) =
  [Z.of_N (e_t (wm_ev m)); (- Z.land (Z.of_N (flag_of f (wm_id m))) 1)%Z; (- Z.of_N (e_type (wm_ev m)))%Z; Z.of_nat (length (e_pl (wm_ev m)))]
  ++ map (fun b => (- Z.of_N b)%Z) (e_pl (wm_ev m)).
Proof.
  unfold content, rt_msg, payload, anti_bit. cbn [m_t m_flags m_type m_plsize m_pl].
  rewrite Nat2Z.id, firstn_all2 by (rewrite map_length; lia). rewrite map_map. reflexivity.
Qed.

Lemma wbefore_valid f a b : Z.land (Z.of_N (fl f a)) 1 = 0%Z -> Z.land (Z.of_N (fl f b)) 1 = 0%Z ->
  wbefore f a b = cltb (cont_of (wm_ev a)) (cont_of (wm_ev b)).
Proof.
  intros Ha Hb. unfold wbefore. rewrite before_is_lex by apply rt_wf. rewrite !content_rt. unfold fl in *. rewrite Ha, Hb.
  unfold cltb, key, cont_of, c_t, c_type, c_pl. cbn [fst snd]. reflexivity.
Qed.
Lemma wbefore_doomed f a b : Z.land (Z.of_N (fl f a)) 1 = 0%Z -> Z.land (Z.of_N (fl f b)) 1 = 1%Z ->
  wbefore f a b = tltb (cont_of (wm_ev a)) (cont_of (wm_ev b)).
Proof.
  intros Ha Hb. unfold wbefore. rewrite before_is_lex by apply rt_wf. rewrite !content_rt. unfold fl in *. rewrite Ha, Hb.
  unfold tltb, cont_of, c_t. cbn [fst snd app lexltb].
  destruct (Z.ltb_spec (Z.of_N (e_t (wm_ev a))) (Z.of_N (e_t (wm_ev b)))) as [H|H].
  - symmetry. apply N.ltb_lt. lia.
  - destruct (Z.eqb_spec (Z.of_N (e_t (wm_ev a))) (Z.of_N (e_t (wm_ev b)))) as [E|E]; cbn.
    + symmetry. apply N.ltb_ge. lia.
    + symmetry. apply N.ltb_ge. lia.
Qed.

(* ---------- Part 2: what the abstract pool and the abstract set of cancelled identities are, on the worker's side ---------- *)
Definition Live (f : fmap) (pd : list wmsg) (y : wmsg) : Prop := In y pd /\ (fl f y = 0%N \/ fl f y = 1%N).
Definition Dm (f : fmap) (pd pr : list wmsg) (i : positive) : Prop :=
  exists y, wm_id y = i /\ ((In y pd /\ fl f y = 1%N) \/ (In y pr /\ (fl f y = 3%N \/ fl f y = 5%N))).
Definition Mk0 (f : fmap) (pd mk : list wmsg) : Prop := forall o, In o mk -> fl f o = 0%N -> In o pd.
Definition No5 (f : fmap) (l : list wmsg) : Prop := forall y, In y l -> fl f y <> 5%N.

Lemma fl_set f o v y : fl (flag_set f (wm_id o) v) y = if Pos.eqb (wm_id y) (wm_id o) then v else fl f y.
Proof.
  destruct (Pos.eqb_spec (wm_id y) (wm_id o)) as [E|E].
  - unfold fl. rewrite E. unfold flag_of, flag_set. rewrite PositiveMap.gss. reflexivity.
  - apply fl_set_other. exact E.
Qed.

Section Sets.
Variables (f : fmap) (pd pr mk : list wmsg) (nx : positive).

(* one marker un-done, message still pending: it stays pending, now cancelled *)
Lemma unmark0_sets o : Loc 0 f pd pr (o :: mk) nx -> Mk0 f pd (o :: mk) -> fl f o = 0%N ->
  let f' := flag_set f (wm_id o) 1 in
  (forall y, Live f' pd y <-> Live f pd y) /\
  (forall i, Dm f' pd pr i <-> Dm f pd pr i \/ i = wm_id o) /\ Mk0 f' pd mk /\ (forall L, No5 f L -> No5 f' L).
Proof.
  intros L M0 Hf f'. pose proof (l_body _ _ _ _ _ _ L) as Hb.
  assert (Hid : forall y, In y (pd ++ pr ++ o :: mk) -> wm_id y = wm_id o -> y = o).
  { intros y Hy E. apply Hb; [exact Hy|rewrite !in_app_iff; cbn; tauto|exact E]. }
  assert (Hopd : In o pd) by (apply M0; [left; reflexivity|exact Hf]).
  assert (Hnpr : ~ In o pr).
  { intro H. destruct (l_pr _ _ _ _ _ _ L o H) as [[H1 _]|[[H1 _]|[H1 _]]]; rewrite Hf in H1; discriminate. }
  destruct (nodup_cons_id o mk (l_nd_mk _ _ _ _ _ _ L)) as [Hnmk _].
  split; [|split; [|split]].
  - intros y. unfold Live, f'. split; intros [Hy Hfl]; (split; [exact Hy|]); rewrite fl_set in *;
      destruct (Pos.eqb_spec (wm_id y) (wm_id o)) as [E|E]; try exact Hfl.
    + rewrite (Hid y ltac:(rewrite in_app_iff; tauto) E). left. exact Hf.
    + right. reflexivity.
  - intros i. unfold Dm, f'. split.
    + intros (y & Ey & H). rewrite fl_set in H. destruct (Pos.eqb_spec (wm_id y) (wm_id o)) as [E|E].
      * right. rewrite <- Ey. exact E.
      * left. exists y. split; [exact Ey|exact H].
    + intros [(y & Ey & H)| ->].
      * exists y. split; [exact Ey|]. rewrite fl_set. destruct (Pos.eqb_spec (wm_id y) (wm_id o)) as [E|E]; [|exact H].
        exfalso. destruct H as [[Hy Hfl]|[Hy Hfl]].
        -- rewrite (Hid y ltac:(rewrite in_app_iff; tauto) E), Hf in Hfl. discriminate.
        -- rewrite (Hid y ltac:(rewrite !in_app_iff; tauto) E) in Hy. exact (Hnpr Hy).
      * exists o. split; [reflexivity|left]. split; [exact Hopd|]. rewrite fl_set, Pos.eqb_refl. reflexivity.
  - intros y Hy Hfl. unfold f' in Hfl. rewrite fl_set in Hfl. destruct (Pos.eqb_spec (wm_id y) (wm_id o)) as [E|E]; [discriminate|].
    apply M0; [right; exact Hy|exact Hfl].
  - intros L0 N5 y Hy. unfold f'. rewrite fl_set. destruct (Pos.eqb_spec (wm_id y) (wm_id o)) as [E|E]; [discriminate|apply N5; exact Hy].
Qed.

(* one marker un-done, message already processed: it is now cancelled where it is, and its notice is queued (not part of the pool) *)
Lemma unmark2_sets o : Loc 0 f pd pr (o :: mk) nx -> Mk0 f pd (o :: mk) -> fl f o = 2%N ->
  let f' := flag_set f (wm_id o) 3 in
  (forall y, Live f' (o :: pd) y <-> Live f pd y) /\
  (forall i, Dm f' (o :: pd) pr i <-> Dm f pd pr i \/ i = wm_id o) /\ Mk0 f' (o :: pd) mk /\ (forall L, No5 f L -> No5 f' L).
Proof.
  intros L M0 Hf f'. pose proof (l_body _ _ _ _ _ _ L) as Hb.
  assert (Hid : forall y, In y (pd ++ pr ++ o :: mk) -> wm_id y = wm_id o -> y = o).
  { intros y Hy E. apply Hb; [exact Hy|rewrite !in_app_iff; cbn; tauto|exact E]. }
  assert (Hopr : In o pr).
  { destruct (l_mk _ _ _ _ _ _ L o (or_introl eq_refl)) as [H|[_ [H|H]]]; [rewrite Hf in H; discriminate|exact H|lia]. }
  assert (Hnpd : ~ In o pd).
  { intro H. destruct (l_pd _ _ _ _ _ _ L o H) as [[H1 _]|[[H1|H1] _]]; rewrite Hf in H1; discriminate. }
  split; [|split; [|split]].
  - intros y. unfold Live, f'. split.
    + intros [[<-|Hy] Hfl]; [rewrite fl_set, Pos.eqb_refl in Hfl; destruct Hfl; discriminate|].
      rewrite fl_set in Hfl. destruct (Pos.eqb_spec (wm_id y) (wm_id o)) as [E|E]; [destruct Hfl; discriminate|]. split; assumption.
    + intros [Hy Hfl]. split; [right; exact Hy|]. rewrite fl_set. destruct (Pos.eqb_spec (wm_id y) (wm_id o)) as [E|E]; [|exact Hfl].
      exfalso. apply Hnpd. rewrite <- (Hid y ltac:(rewrite in_app_iff; tauto) E). exact Hy.
  - intros i. unfold Dm, f'. split.
    + intros (y & Ey & H). rewrite fl_set in H. destruct (Pos.eqb_spec (wm_id y) (wm_id o)) as [E|E].
      * right. rewrite <- Ey. exact E.
      * left. exists y. split; [exact Ey|]. destruct H as [[[<-|Hy] Hfl]|H]; [congruence|left; split; assumption|right; exact H].
    + intros [(y & Ey & H)| ->].
      * exists y. split; [exact Ey|]. rewrite fl_set. destruct (Pos.eqb_spec (wm_id y) (wm_id o)) as [E|E].
        -- exfalso. destruct H as [[Hy Hfl]|[Hy Hfl]].
           ++ apply Hnpd. rewrite <- (Hid y ltac:(rewrite in_app_iff; tauto) E). exact Hy.
           ++ rewrite (Hid y ltac:(rewrite !in_app_iff; tauto) E), Hf in Hfl. destruct Hfl; discriminate.
        -- destruct H as [[Hy Hfl]|H]; [left; split; [right; exact Hy|exact Hfl]|right; exact H].
      * exists o. split; [reflexivity|right]. split; [exact Hopr|]. rewrite fl_set, Pos.eqb_refl. left. reflexivity.
  - intros y Hy Hfl. unfold f' in Hfl. rewrite fl_set in Hfl. destruct (Pos.eqb_spec (wm_id y) (wm_id o)) as [E|E]; [discriminate|].
    right. apply M0; [right; exact Hy|exact Hfl].
  - intros L0 N5 y Hy. unfold f'. rewrite fl_set. destruct (Pos.eqb_spec (wm_id y) (wm_id o)) as [E|E]; [discriminate|apply N5; exact Hy].
Qed.

(* one processed message un-done, not cancelled: back into the pool *)
Lemma unproc2_sets y0 : Loc 0 f pd (y0 :: pr) mk nx -> Mk0 f pd mk -> fl f y0 = 2%N ->
  let f' := flag_set f (wm_id y0) 0 in
  (forall y, Live f' (y0 :: pd) y <-> Live f pd y \/ y = y0) /\
  (forall i, Dm f' (y0 :: pd) pr i <-> Dm f pd (y0 :: pr) i) /\ Mk0 f' (y0 :: pd) mk /\ (forall L, No5 f L -> No5 f' L).
Proof.
  intros L M0 Hf f'. pose proof (l_body _ _ _ _ _ _ L) as Hb.
  assert (Hid : forall y, In y (pd ++ (y0 :: pr) ++ mk) -> wm_id y = wm_id y0 -> y = y0).
  { intros y Hy E. apply Hb; [exact Hy|rewrite !in_app_iff; cbn; tauto|exact E]. }
  destruct (nodup_cons_id y0 pr (l_nd_pr _ _ _ _ _ _ L)) as [Hnpr _].
  assert (Hnpd : ~ In y0 pd).
  { intro H. destruct (l_pd _ _ _ _ _ _ L y0 H) as [[H1 _]|[[H1|H1] _]]; rewrite Hf in H1; discriminate. }
  split; [|split; [|split]].
  - intros y. unfold Live, f'. split.
    + intros [[<-|Hy] Hfl]; [right; reflexivity|]. rewrite fl_set in Hfl. destruct (Pos.eqb_spec (wm_id y) (wm_id y0)) as [E|E].
      * right. apply Hid; [rewrite in_app_iff; tauto|exact E].
      * left. split; assumption.
    + intros [[Hy Hfl]| ->]; [|split; [left; reflexivity|rewrite fl_set, Pos.eqb_refl; left; reflexivity]].
      split; [right; exact Hy|]. rewrite fl_set. destruct (Pos.eqb_spec (wm_id y) (wm_id y0)) as [E|E]; [left; reflexivity|exact Hfl].
  - intros i. unfold Dm, f'. split.
    + intros (y & Ey & H). rewrite fl_set in H. destruct (Pos.eqb_spec (wm_id y) (wm_id y0)) as [E|E].
      * exfalso. destruct H as [[_ H]|[_ [H|H]]]; discriminate.
      * exists y. split; [exact Ey|]. destruct H as [[[<-|Hy] Hfl]|[Hy Hfl]]; [congruence|left; split; assumption|right; split; [right; exact Hy|exact Hfl]].
    + intros (y & Ey & H). exists y. split; [exact Ey|]. rewrite fl_set. destruct (Pos.eqb_spec (wm_id y) (wm_id y0)) as [E|E].
      * exfalso. destruct H as [[Hy Hfl]|[Hy Hfl]].
        -- apply Hnpd. rewrite <- (Hid y ltac:(rewrite in_app_iff; tauto) E). exact Hy.
        -- rewrite (Hid y ltac:(rewrite !in_app_iff; cbn; tauto) E), Hf in Hfl. destruct Hfl; discriminate.
      * destruct H as [[Hy Hfl]|[[<-|Hy] Hfl]]; [left; split; [right; exact Hy|exact Hfl]|congruence|right; split; assumption].
  - intros y Hy Hfl. unfold f' in Hfl. rewrite fl_set in Hfl. destruct (Pos.eqb_spec (wm_id y) (wm_id y0)) as [E|E].
    + left. symmetry. apply Hid; [rewrite !in_app_iff; tauto|exact E].
    + right. apply M0; assumption.
  - intros L0 N5 y Hy. unfold f'. rewrite fl_set. destruct (Pos.eqb_spec (wm_id y) (wm_id y0)) as [E|E]; [discriminate|apply N5; exact Hy].
Qed.

(* one processed message un-done that was cancelled meanwhile: its queued notice becomes the pool's (cancelled) copy *)
Lemma unproc3_sets y0 : Loc 0 f pd (y0 :: pr) mk nx -> Mk0 f pd mk -> fl f y0 = 3%N ->
  let f' := flag_set f (wm_id y0) 1 in
  (forall y, Live f' pd y <-> Live f pd y \/ y = y0) /\
  (forall i, Dm f' pd pr i <-> Dm f pd (y0 :: pr) i) /\ Mk0 f' pd mk /\ (forall L, No5 f L -> No5 f' L).
Proof.
  intros L M0 Hf f'. pose proof (l_body _ _ _ _ _ _ L) as Hb.
  assert (Hid : forall y, In y (pd ++ (y0 :: pr) ++ mk) -> wm_id y = wm_id y0 -> y = y0).
  { intros y Hy E. apply Hb; [exact Hy|rewrite !in_app_iff; cbn; tauto|exact E]. }
  destruct (nodup_cons_id y0 pr (l_nd_pr _ _ _ _ _ _ L)) as [Hnpr _].
  assert (Hpd : In y0 pd).
  { destruct (l_pr _ _ _ _ _ _ L y0 (or_introl eq_refl)) as [[_ H]|[[H _]|[H _]]]; [exact H|rewrite Hf in H; discriminate|rewrite Hf in H; discriminate]. }
  split; [|split; [|split]].
  - intros y. unfold Live, f'. split.
    + intros [Hy Hfl]. rewrite fl_set in Hfl. destruct (Pos.eqb_spec (wm_id y) (wm_id y0)) as [E|E].
      * right. apply Hid; [rewrite in_app_iff; tauto|exact E].
      * left. split; assumption.
    + intros [[Hy Hfl]| ->]; [|split; [exact Hpd|rewrite fl_set, Pos.eqb_refl; right; reflexivity]].
      split; [exact Hy|]. rewrite fl_set. destruct (Pos.eqb_spec (wm_id y) (wm_id y0)) as [E|E]; [right; reflexivity|exact Hfl].
  - intros i. unfold Dm, f'. split.
    + intros (y & Ey & H). rewrite fl_set in H. destruct (Pos.eqb_spec (wm_id y) (wm_id y0)) as [E|E].
      * exists y0. split; [rewrite <- Ey; symmetry; exact E|right]. split; [left; reflexivity|left; exact Hf].
      * exists y. split; [exact Ey|]. destruct H as [H|[Hy Hfl]]; [left; exact H|right; split; [right; exact Hy|exact Hfl]].
    + intros (y & Ey & H). rewrite <- Ey. destruct (Pos.eq_dec (wm_id y) (wm_id y0)) as [E|E].
      * exists y0. split; [symmetry; exact E|left]. split; [exact Hpd|]. rewrite fl_set, Pos.eqb_refl. reflexivity.
      * exists y. split; [reflexivity|]. rewrite fl_set. destruct (Pos.eqb_spec (wm_id y) (wm_id y0)) as [E'|_]; [contradiction|].
        destruct H as [H|[[<-|Hy] Hfl]]; [left; exact H|congruence|right; split; assumption].
  - intros y Hy Hfl. unfold f' in Hfl. rewrite fl_set in Hfl. destruct (Pos.eqb_spec (wm_id y) (wm_id y0)) as [E|E]; [discriminate|]. apply M0; assumption.
  - intros L0 N5 y Hy. unfold f'. rewrite fl_set. destruct (Pos.eqb_spec (wm_id y) (wm_id y0)) as [E|E]; [discriminate|apply N5; exact Hy].
Qed.

(* the annihilation of the cancelled processed message whose notice is in hand *)
Lemma unproc5_sets y0 : Loc 0 f pd (y0 :: pr) mk nx -> Mk0 f pd mk -> fl f y0 = 5%N ->
  let f' := flag_set f (wm_id y0) 3 in
  (forall y, Live f' pd y <-> Live f pd y) /\
  (forall i, Dm f' pd pr i <-> Dm f pd (y0 :: pr) i /\ i <> wm_id y0) /\ Mk0 f' pd mk /\ (forall L, No5 f L -> No5 f' L).
Proof.
  intros L M0 Hf f'. pose proof (l_body _ _ _ _ _ _ L) as Hb.
  assert (Hid : forall y, In y (pd ++ (y0 :: pr) ++ mk) -> wm_id y = wm_id y0 -> y = y0).
  { intros y Hy E. apply Hb; [exact Hy|rewrite !in_app_iff; cbn; tauto|exact E]. }
  destruct (nodup_cons_id y0 pr (l_nd_pr _ _ _ _ _ _ L)) as [Hnpr _].
  assert (Hnpd : ~ In y0 pd).
  { intro H. destruct (l_pd _ _ _ _ _ _ L y0 H) as [[H1 _]|[[H1|H1] _]]; rewrite Hf in H1; discriminate. }
  assert (Hother : forall y, In y pd \/ In y pr -> wm_id y <> wm_id y0).
  { intros y Hy E. assert (y = y0) by (apply Hid; [rewrite !in_app_iff; cbn; tauto|exact E]). subst. tauto. }
  split; [|split; [|split]].
  - intros y. unfold Live, f'. split; intros [Hy Hfl]; (split; [exact Hy|]); rewrite fl_set in *;
      destruct (Pos.eqb_spec (wm_id y) (wm_id y0)) as [E|E]; try exact Hfl; exfalso; apply (Hother y (or_introl Hy) E).
  - intros i. unfold Dm, f'. split.
    + intros (y & Ey & H). assert (Hne : wm_id y <> wm_id y0) by (apply Hother; destruct H as [[H _]|[H _]]; tauto).
      rewrite fl_set in H. destruct (Pos.eqb_spec (wm_id y) (wm_id y0)) as [E|_]; [contradiction|]. split; [|rewrite <- Ey; exact Hne].
      exists y. split; [exact Ey|]. destruct H as [H|[Hy Hfl]]; [left; exact H|right; split; [right; exact Hy|exact Hfl]].
    + intros [(y & Ey & H) Hne]. exists y. split; [exact Ey|]. rewrite fl_set. destruct (Pos.eqb_spec (wm_id y) (wm_id y0)) as [E|_]; [congruence|].
      destruct H as [H|[[<-|Hy] Hfl]]; [left; exact H|congruence|right; split; assumption].
  - intros y Hy Hfl. unfold f' in Hfl. rewrite fl_set in Hfl. destruct (Pos.eqb_spec (wm_id y) (wm_id y0)) as [E|E]; [discriminate|]. apply M0; assumption.
  - intros L0 N5 y Hy. unfold f'. rewrite fl_set. destruct (Pos.eqb_spec (wm_id y) (wm_id y0)) as [E|E]; [discriminate|apply N5; exact Hy].
Qed.
End Sets.

(* ---------- send_anti_messages over a list of entries none of which is being annihilated ---------- *)
Lemma undo_all_sets es : forall w pr mk,
  Loc 0 (k_flags w) (pend w) (procs_of es ++ pr) (marks_of es ++ mk) (k_next w) ->
  Mk0 (k_flags w) (pend w) (marks_of es ++ mk) -> No5 (k_flags w) (procs_of es) ->
  let w' := fold_left undo_entry es w in
  Loc 0 (k_flags w') (pend w') pr mk (k_next w') /\
  (forall y, Live (k_flags w') (pend w') y <-> Live (k_flags w) (pend w) y \/ In y (procs_of es)) /\
  (forall i, Dm (k_flags w') (pend w') pr i <-> Dm (k_flags w) (pend w) (procs_of es ++ pr) i \/ In i (map wm_id (marks_of es))) /\
  Mk0 (k_flags w') (pend w') mk /\ (forall L, No5 (k_flags w) L -> No5 (k_flags w') L) /\ k_next w' = k_next w.
Proof.
  induction es as [|e es IH]; intros w pr mk HL M0 N5; cbn [fold_left].
  - cbn [procs_of marks_of flat_map app map] in *. split; [exact HL|]. split; [intros y; cbn [In]; tauto|]. split; [intros i; cbn [In]; tauto|].
    split; [exact M0|split; [intros L0 H; exact H|reflexivity]].
  - destruct e as [o|y0].
    + change (procs_of (ESent o :: es)) with (procs_of es) in *.
      change (marks_of (ESent o :: es) ++ mk) with (o :: (marks_of es ++ mk)) in *.
      change (map wm_id (marks_of (ESent o :: es))) with (wm_id o :: map wm_id (marks_of es)).
      assert (Hstep : let w1 := undo_entry w (ESent o) in
                Loc 0 (k_flags w1) (pend w1) (procs_of es ++ pr) (marks_of es ++ mk) (k_next w1) /\
                (forall y, Live (k_flags w1) (pend w1) y <-> Live (k_flags w) (pend w) y) /\
                (forall i, Dm (k_flags w1) (pend w1) (procs_of es ++ pr) i <-> Dm (k_flags w) (pend w) (procs_of es ++ pr) i \/ i = wm_id o) /\
                Mk0 (k_flags w1) (pend w1) (marks_of es ++ mk) /\ (forall L, No5 (k_flags w) L -> No5 (k_flags w1) L) /\ k_next w1 = k_next w).
      { destruct (Loc_unmark _ _ _ _ _ _ _ HL ltac:(lia)) as [[Hf HL']|[Hf HL']]; cbn zeta; unfold undo_entry, flag_add; fold (fl (k_flags w) o); rewrite Hf.
        - destruct (unmark0_sets _ _ _ _ _ o HL M0 Hf) as (S1 & S2 & S3 & S4). cbn. split; [exact HL'|]. split; [exact S1|]. split; [exact S2|]. split; [exact S3|]. split; [exact S4|reflexivity].
        - destruct (unmark2_sets _ _ _ _ _ o HL M0 Hf) as (S1 & S2 & S3 & S4). cbn. split; [exact HL'|]. split; [exact S1|]. split; [exact S2|]. split; [exact S3|]. split; [exact S4|reflexivity]. }
      cbn zeta in Hstep. destruct Hstep as (H1 & H2 & H3 & H4 & H5 & H6).
      destruct (IH (undo_entry w (ESent o)) pr mk H1 H4 (H5 _ N5)) as (I1 & I2 & I3 & I4 & I5 & I6). cbn zeta in *.
      split; [exact I1|]. split; [intros y; rewrite I2, H2; tauto|]. split; [|split; [exact I4|split; [intros L0 H; apply I5; apply H5; exact H|rewrite I6; exact H6]]].
      intros i. rewrite I3, H3. cbn [In]. split; [intros [[H|H]|H]; auto|intros [H|[H|H]]; auto].
    + change (marks_of (EProc y0 :: es)) with (marks_of es) in *.
      change (procs_of (EProc y0 :: es) ++ pr) with (y0 :: (procs_of es ++ pr)) in *.
      change (procs_of (EProc y0 :: es)) with (y0 :: procs_of es) in *.
      assert (Hstep : let w1 := undo_entry w (EProc y0) in
                Loc 0 (k_flags w1) (pend w1) (procs_of es ++ pr) (marks_of es ++ mk) (k_next w1) /\
                (forall y, Live (k_flags w1) (pend w1) y <-> Live (k_flags w) (pend w) y \/ y = y0) /\
                (forall i, Dm (k_flags w1) (pend w1) (procs_of es ++ pr) i <-> Dm (k_flags w) (pend w) (y0 :: (procs_of es ++ pr)) i) /\
                Mk0 (k_flags w1) (pend w1) (marks_of es ++ mk) /\ (forall L, No5 (k_flags w) L -> No5 (k_flags w1) L) /\ k_next w1 = k_next w).
      { destruct (Loc_unproc _ _ _ _ _ _ _ HL) as [[Hf HL']|[[Hf HL']|[Hf HL']]]; cbn zeta; unfold undo_entry, flag_sub; fold (fl (k_flags w) y0); rewrite Hf.
        - destruct (unproc2_sets _ _ _ _ _ y0 HL M0 Hf) as (S1 & S2 & S3 & S4). cbn. split; [exact HL'|]. split; [exact S1|]. split; [exact S2|]. split; [exact S3|]. split; [exact S4|reflexivity].
        - destruct (unproc3_sets _ _ _ _ _ y0 HL M0 Hf) as (S1 & S2 & S3 & S4). cbn. split; [exact HL'|]. split; [exact S1|]. split; [exact S2|]. split; [exact S3|]. split; [exact S4|reflexivity].
        - exfalso. apply (N5 y0 (or_introl eq_refl)). exact Hf. }
      cbn zeta in Hstep. destruct Hstep as (H1 & H2 & H3 & H4 & H5 & H6).
      assert (N5' : No5 (k_flags (undo_entry w (EProc y0))) (procs_of es)) by (apply H5; intros z Hz; apply N5; right; exact Hz).
      destruct (IH (undo_entry w (EProc y0)) pr mk H1 H4 N5') as (I1 & I2 & I3 & I4 & I5 & I6). cbn zeta in *.
      split; [exact I1|]. split; [intros y; rewrite I2, H2; cbn [In]; split; [intros [[H|H]|H]; auto|intros [H|[H|H]]; auto]|].
      split; [intros i; rewrite I3, H3; reflexivity|]. split; [exact I4|split; [intros L0 H; apply I5; apply H5; exact H|rewrite I6; exact H6]].
Qed.
