(* The termination hooks process.c calls (TW/WorkerTerm.v) are legal operations of the termination model (TW/Term.v) in every script:
   the accounting invariant of termination.c therefore holds along every execution of the worker model, a thread's vote is sound, and the
   ghost history of the termination model IS the worker's history: the timestamps recorded for an LP end with those of the entries
   the LP retains (what precedes them was released by fossil collection).  In particular a rollback undoes, in the termination
   accounting, exactly the processed entries process.c removes from the history, and all of them are at or after the time passed
   to termination_on_lp_rollback. *)
From Coq Require Import List ZArith NArith PArith Bool Arith Lia Sorted Permutation.
From RS Require Import TW.App TW.Worker TW.WorkerProofs TW.WorkerSafety TW.WorkerOnce TW.WorkerOnceProofs TW.WorkerOnceApp TW.WorkerAbs.
From RS Require TW.Term.
From RS Require Import TW.WorkerTerm.
Import ListNotations.

(* ---------- lists ---------- *)
Lemma skipn_tail {A} (a c : list A) : skipn (length (a ++ c) - length c) (a ++ c) = c.
Proof. rewrite app_length. replace (length a + length c - length c) with (length a) by lia. rewrite skipn_app, skipn_all, Nat.sub_diag. reflexivity. Qed.
Lemma firstn_head {A} (a c : list A) : firstn (length (a ++ c) - length c) (a ++ c) = a.
Proof. rewrite app_length. replace (length a + length c - length c) with (length a) by lia. rewrite firstn_app, firstn_all, Nat.sub_diag, firstn_O, app_nil_r. reflexivity. Qed.

Definition notinit (y : wmsg) : bool := negb (N.eqb (e_type (wm_ev y)) LP_INIT_TYPE).
(* the processed messages of a history, LP_INIT excluded *)
Definition P (h : list entry) : list wmsg := filter notinit (procs_of h).

Lemma P_app a b : P (a ++ b) = P a ++ P b.
Proof. unfold P. rewrite procs_app, filter_app. reflexivity. Qed.
Lemma P_sent ms : P (map ESent ms) = [].
Proof. induction ms as [|m ms IH]; [reflexivity|exact IH]. Qed.
Lemma nprocs_procs es : nprocs es = length (procs_of es).
Proof. unfold nprocs. induction es as [|e es IH]; [reflexivity|]. destruct e; cbn; [exact IH|rewrite IH; reflexivity]. Qed.
Lemma P_all es : (forall y, In (EProc y) es -> tyok y) -> P es = procs_of es.
Proof.
  intros H. unfold P. assert (G : forall y, In y (procs_of es) -> notinit y = true).
  { intros y Hy. apply in_procs in Hy. specialize (H y Hy). unfold tyok in H. unfold notinit. apply negb_true_iff. apply N.eqb_neq. lia. }
  induction (procs_of es) as [|y r IH]; [reflexivity|]. cbn [filter]. rewrite (G y (or_introl eq_refl)). f_equal. apply IH. intros z Hz. apply G. right. exact Hz.
Qed.
Lemma P_split h k : P h = P (firstn k h) ++ P (skipn k h).
Proof. rewrite <- P_app, firstn_skipn. reflexivity. Qed.

Section TermProofs.
Variable p : prog.
Variable ck : nat.
Variable TMAX : Z.
Hypothesis TMAX_pos : (0 < TMAX)%Z.
Hypothesis Htypes : types_okb p = true.

Notation H_time := (fun ev st e => app_handle_time p ev st e).
Notation H_type := (fun ev st e => app_handle_type p ev st e Htypes).
Notation H_dest := (fun ev st e => app_handle_dest p ev st e).
Notation n := (N.to_nat (p_lps p)).

(* the ghost history of the termination model ends with the worker's retained history *)
Definition GH (w : worker) (ts : Term.tstate) : Prop :=
  forall l, l < n -> exists pre, map fst (nth l (Term.hist ts) []) = pre ++ map ztm (P (x_hist (get_lp w l))).

Record TI (s : tw) : Prop := {
  ti_full : full p (tw_w s);
  ti_len : length (k_lps (tw_w s)) = n;
  ti_inv : Term.Inv TMAX (tw_t s);
  ti_n : length (Term.term (tw_t s)) = n;
  ti_gh : tw_ovf s = false -> GH (tw_w s) (tw_t s)
}.

(* ---------- the termination model: frames ---------- *)
Lemma step_term_len s o : length (Term.term (Term.step TMAX s o)) = length (Term.term s).
Proof.
  destruct o as [lp t pr|lp t k|g tend]; cbn [Term.step].
  - unfold Term.proc. destruct (0 <=? nth lp (Term.term s) (-1))%Z; cbn [Term.term]; [reflexivity|apply Term.upd_length].
  - unfold Term.rollback. cbn [Term.term]. apply Term.upd_length.
  - unfold Term.gvt. destruct (Term.votes s g tend); reflexivity.
Qed.
Lemma proc_hist s lp t pr : Term.hist (Term.proc s lp t pr) = Term.upd (Term.hist s) lp (nth lp (Term.hist s) [] ++ [(t, pr)]).
Proof. unfold Term.proc. destruct (0 <=? nth lp (Term.term s) (-1))%Z; reflexivity. Qed.
Lemma rb_hist s lp t k : Term.hist (Term.rollback TMAX s lp t k) =
  Term.upd (Term.hist s) lp (firstn (length (nth lp (Term.hist s) []) - k) (nth lp (Term.hist s) [])).
Proof. reflexivity. Qed.

(* undoing the last k entries: legality and the new ghost, given that the ghost ends with [A ++ C], C being the k undone entries *)
Lemma rb_step ts l t (pre A C : list Z) :
  Term.Inv TMAX ts -> l < length (Term.term ts) -> (0 <= t < TMAX)%Z ->
  map fst (nth l (Term.hist ts) []) = (pre ++ A) ++ C -> (forall c, In c C -> (t <= c)%Z) ->
  Term.legal TMAX ts (Term.Rb l t (length C)) /\
  map fst (nth l (Term.hist (Term.step TMAX ts (Term.Rb l t (length C)))) []) = pre ++ A /\
  (forall i, i <> l -> nth i (Term.hist (Term.step TMAX ts (Term.Rb l t (length C)))) [] = nth i (Term.hist ts) []).
Proof.
  intros I Hl Ht E HC. set (H := nth l (Term.hist ts) []) in *.
  assert (Hlen : length H = length ((pre ++ A) ++ C)) by (rewrite <- E, map_length; reflexivity).
  split; [|split].
  - cbn [Term.legal]. split; [exact Hl|]. split; [exact Ht|]. fold H. split; [rewrite Hlen, app_length; lia|].
    intros e He. apply HC. assert (Hin : In (fst e) (map fst (skipn (length H - length C) H))) by (apply in_map; exact He).
    rewrite <- skipn_map, E, Hlen, skipn_tail in Hin. exact Hin.
  - cbn [Term.step]. rewrite rb_hist. rewrite Term.nth_upd_eq by (rewrite (Term.i_len TMAX ts I); exact Hl). fold H.
    rewrite <- firstn_map, E, Hlen, firstn_head. reflexivity.
  - intros i Hi. cbn [Term.step]. rewrite rb_hist. apply Term.nth_upd_neq. exact Hi.
Qed.

Lemma proc_step ts l t pr (G : list Z) :
  Term.Inv TMAX ts -> l < length (Term.term ts) -> (0 <= t < TMAX)%Z ->
  map fst (nth l (Term.hist ts) []) = G ->
  Term.legal TMAX ts (Term.Proc l t pr) /\
  map fst (nth l (Term.hist (Term.step TMAX ts (Term.Proc l t pr))) []) = G ++ [t] /\
  (forall i, i <> l -> nth i (Term.hist (Term.step TMAX ts (Term.Proc l t pr))) [] = nth i (Term.hist ts) []).
Proof.
  intros I Hl Ht E. split; [split; assumption|]. cbn [Term.step]. rewrite proc_hist. split.
  - rewrite Term.nth_upd_eq by (rewrite (Term.i_len TMAX ts I); exact Hl). rewrite map_app, E. reflexivity.
  - intros i Hi. apply Term.nth_upd_neq. exact Hi.
Qed.

(* ---------- the worker: what a rollback and the lazy fossil collection do to the histories ---------- *)
Lemma rollback_hist w l past : all_ok2 p w -> l < length (k_lps w) -> fst (base (get_lp w l)) <= past ->
  let w' := do_rollback p w l past in
  x_hist (get_lp w' l) = firstn past (x_hist (get_lp w l)) /\ (forall i, i <> l -> get_lp w' i = get_lp w i) /\ length (k_lps w') = length (k_lps w).
Proof.
  intros Hok Hl Hb. destruct (get_ok2 p w l Hok Hl) as [Hlok _].
  pose proof (drop_newer_some p H_time (get_lp w l) past Hlok Hb) as Hne.
  destruct (drop_newer (x_logs (get_lp w l)) past) as [|[ref snap] older] eqn:Hd; [congruence|].
  cbn zeta. rewrite (do_rollback_unfold p w l past ref snap older Hd).
  assert (Hl' : l < length (k_lps (fold_left undo_entry (skipn past (x_hist (get_lp w l))) w))) by (rewrite undo_all_lps; exact Hl).
  split; [rewrite (get_lp_set _ l _ Hl'); reflexivity|]. split.
  - intros i Hi. rewrite (get_put_other ck _ l _ i Hi). unfold get_lp. rewrite undo_all_lps. reflexivity.
  - cbn [put_lp set_lps k_lps]. rewrite set_nth_length, undo_all_lps. reflexivity.
Qed.

Lemma lazy_hist w1 l m :
  all_ok2 p w1 -> good w1 -> l < length (k_lps w1) ->
  Loc (k_gvt w1) (k_flags w1) (m :: pend w1) (allprocs (k_lps w1)) (allmarks (k_lps w1)) (k_next w1) -> ge (k_gvt w1) m ->
  (forall i, i < length (k_lps w1) -> lp_extra (length (k_lps w1)) i (get_lp w1 i)) ->
  let w2 := if Nat.eqb (x_epoch (get_lp w1 l)) (k_epoch w1) then w1 else let w' := fossil_lp w1 l in put_lp w' l (fix_bound (get_lp w' l)) in
  (forall i, i <> l -> x_hist (get_lp w2 i) = x_hist (get_lp w1 i)) /\ exists r, x_hist (get_lp w2 l) = skipn r (x_hist (get_lp w1 l)).
Proof.
  intros Hok [S2 S3 S4] Hl HL Hgm Hx. cbn zeta.
  destruct (Nat.eqb (x_epoch (get_lp w1 l)) (k_epoch w1)); [split; [reflexivity|exists 0; reflexivity]|].
  destruct (fossil_once p ck H_time w1 l (m :: pend w1) [] Hok S4 Hl (proj1 (Hx l Hl)) HL) as (_ & _ & _ & _ & _ & F6 & _ & _ & _ & F10 & F11).
  { intros y [<-|Hy]; [exact Hgm|apply S2; exact Hy]. }
  set (w' := fossil_lp w1 l) in *. assert (Hl' : l < length (k_lps w')) by (rewrite F6; exact Hl).
  split.
  - intros i Hi. rewrite (get_put_other ck w' l _ i Hi), (F10 i Hi). reflexivity.
  - rewrite (get_lp_set w' l _ Hl'), fix_bound_hist. destruct F11 as [E|(r & E & _)]; [exists 0; rewrite E; reflexivity|exists r; exact E].
Qed.

(* ---------- one process_msg ---------- *)
Lemma ops_spec w ts : full p w -> length (k_lps w) = n -> Term.Inv TMAX ts -> length (Term.term ts) = n ->
  forallb (op_time_ok TMAX) (msg_term_ops p ck w) = true -> GH w ts ->
  Term.all_legal TMAX ts (msg_term_ops p ck w) /\ GH (process_msg p ck w) (Term.run TMAX ts (msg_term_ops p ck w)).
Proof.
  intros F Hn I Ht Htime Hgh. pose proof F as [Hok Hg He HL [Hxp Hxl] _].
  destruct (process_msg_full p ck H_time H_type H_dest w F Hn) as [F' _].
  revert F' Htime. unfold msg_term_ops, process_msg.
  pose proof (extract_spec w Hg) as Hex. pose proof (extract_perm w) as Hperm. pose proof (extract_frame w) as Hfr.
  destruct (wq_extract w) as [[m|] w1]; cbn [snd] in Hfr; cbn zeta in Hfr; destruct Hfr as (Ef & Enx & Eg & Elps & Eerr & Eep).
  2:{ intros _ _. split; [exact Logic.I|]. cbn [Term.run]. intros l Hl. unfold get_lp. rewrite Elps. apply Hgh. exact Hl. }
  destruct Hex as (G1 & Hgm & _).
  assert (Hmin : In m (pend w)) by (apply (Permutation_in _ (Permutation_sym Hperm)); left; reflexivity).
  destruct (Hxp m Hmin) as [Hty Hdl]. set (l := N.to_nat (e_dest (wm_ev m))) in *.
  assert (Ok1 : all_ok2 p w1) by (unfold all_ok2; rewrite Elps; exact Hok).
  assert (Hl1 : l < length (k_lps w1)) by (rewrite Elps; exact Hdl).
  assert (HL1 : Loc (k_gvt w1) (k_flags w1) (m :: pend w1) (allprocs (k_lps w1)) (allmarks (k_lps w1)) (k_next w1)).
  { rewrite Eg, Ef, Elps, Enx. eapply Loc_perm; [exact HL|exact Hperm|apply Permutation_refl|apply Permutation_refl]. }
  assert (Hx1 : forall i, i < length (k_lps w1) -> lp_extra (length (k_lps w1)) i (get_lp w1 i)) by (unfold get_lp; rewrite Elps; exact Hxl).
  assert (He1 : k_err w1 = false) by (rewrite Eerr; exact He).
  assert (Hgm1 : ge (k_gvt w1) m) by (unfold ge; rewrite Eg; exact Hgm).
  destruct (lazy_fossil p ck H_time w1 l m Ok1 G1 He1 Hl1 HL1 Hgm1 Hx1) as (Ok2 & G2 & He2 & Elen2 & Ep2 & Eg2 & HL2 & Hx2).
  destruct (lazy_hist w1 l m Ok1 G1 Hl1 HL1 Hgm1 Hx1) as (Hoth2 & r & Eh2).
  set (w2 := if Nat.eqb (x_epoch (get_lp w1 l)) (k_epoch w1) then w1 else let w' := fossil_lp w1 l in put_lp w' l (fix_bound (get_lp w' l))) in *.
  assert (Hl2 : l < length (k_lps w2)) by (rewrite Elen2; exact Hl1).
  assert (Hln : l < n) by (rewrite <- Hn; exact Hdl).
  assert (Hltt : l < length (Term.term ts)) by (rewrite Ht; exact Hln).
  assert (Eget1 : forall i, x_hist (get_lp w1 i) = x_hist (get_lp w i)) by (intros i; unfold get_lp; rewrite Elps; reflexivity).
  (* the ghost of LP l against the history after the lazy collection *)
  destruct (Hgh l Hln) as (pre0 & Egh0).
  set (h2 := x_hist (get_lp w2 l)) in *.
  assert (Egh : map fst (nth l (Term.hist ts) []) = (pre0 ++ map ztm (P (firstn r (x_hist (get_lp w l))))) ++ map ztm (P h2)).
  { rewrite Egh0, (P_split (x_hist (get_lp w l)) r), map_app, <- Eget1, <- Eh2, app_assoc. reflexivity. }
  set (pre := pre0 ++ map ztm (P (firstn r (x_hist (get_lp w l))))) in *.
  assert (Hoth : forall i, i <> l -> x_hist (get_lp w2 i) = x_hist (get_lp w i)) by (intros i Hi; rewrite (Hoth2 i Hi); apply Eget1).
  destruct (get_ok2 p w2 l Ok2 Hl2) as [Hlok2 Hlwf2].
  destruct (Hx2 l Hl2) as (Hbase2 & Htyp2 & _ & _).
  assert (Htime2 : lp_time (get_lp w2 l)) by (apply get_time; assumption).
  (* the entries a rollback to [k] undoes are ordinary processed messages *)
  assert (Hund : forall k, fst (base (get_lp w2 l)) <= k -> P (skipn k h2) = procs_of (skipn k h2)).
  { intros k Hk. apply P_all. intros y Hy. apply Htyp2. unfold h2 in Hy.
    rewrite <- (firstn_skipn (k - fst (base (get_lp w2 l))) (skipn (fst (base (get_lp w2 l))) (x_hist (get_lp w2 l)))).
    apply in_or_app. right. rewrite skipn_skipn. replace (k - fst (base (get_lp w2 l)) + fst (base (get_lp w2 l))) with k by lia. exact Hy. }
  assert (Htz : (0 <= ztm m)%Z) by (unfold ztm; lia).
  unfold flag_add. fold (fl (k_flags w2) m).
  destruct (l_pd _ _ _ _ _ _ HL2 m (or_introl eq_refl)) as [[Hf Hin]|[[Hf|Hf] Hnin]]; rewrite Hf.
  - (* the notice of a processed message: a rollback to the start of its group *)
    change (has 3 FLAG_ANTI) with true. change (N.eqb 3 (FLAG_ANTI + FLAG_PROC)) with true. change (m32 (3 + FLAG_PROC)) with 5%N. cbn iota.
    set (w3 := set_flags w2 (flag_set (k_flags w2) (wm_id m) 5)).
    change (x_hist (get_lp w3 l)) with h2.
    destruct (anti_index m h2) as [past|] eqn:Ea.
    2:{ intros F' _. exfalso. pose proof (f_err p _ F') as Hbad. cbn in Hbad. discriminate. }
    intros _ Htime. cbn [forallb op_time_ok andb] in Htime. rewrite andb_true_r in Htime. apply Z.ltb_lt in Htime.
    pose proof (anti_ge_base p ck m (get_lp w2 l) past Hlok2 Hbase2 Hty Ea) as Hbp.
    destruct (anti_index_spec ck m _ _ Ea) as (j & Hkj & Hnj & Hsent).
    assert (Hge : forall c, In c (map ztm (P (skipn past h2))) -> (ztm m <= c)%Z).
    { intros c Hc. apply in_map_iff in Hc. destruct Hc as (y & <- & Hy). rewrite (Hund past Hbp) in Hy. apply in_procs in Hy.
      destruct (In_nth_error _ _ Hy) as (q & Hq). rewrite nth_error_skipn_add in Hq. unfold ztm. apply N2Z.inj_le.
      destruct (Nat.lt_trichotomy (past + q) j) as [Hlt|[Heq|Hgt]].
      - destruct (Hsent (past + q) ltac:(lia)) as (z & Hz). pose proof (eq_trans (eq_sym Hz) Hq) as Hbad. discriminate Hbad.
      - rewrite Heq in Hq. pose proof (eq_trans (eq_sym Hnj) Hq) as Hbad. injection Hbad as <-. apply N.le_refl.
      - apply (ptimes_above (x_hist (get_lp w2 l)) j m (proj1 Htime2) Hnj). apply ptimes_in.
        replace (past + q) with (S j + (past + q - S j)) in Hq by lia. rewrite <- nth_error_skipn_add in Hq. apply nth_error_In in Hq. exact Hq. }
    assert (Ek : nprocs (skipn past h2) = length (map ztm (P (skipn past h2)))) by (rewrite map_length, (Hund past Hbp); apply nprocs_procs).
    rewrite Ek.
    assert (Egh' : map fst (nth l (Term.hist ts) []) = (pre ++ map ztm (P (firstn past h2))) ++ map ztm (P (skipn past h2))).
    { rewrite Egh, (P_split h2 past), map_app, app_assoc. reflexivity. }
    destruct (rb_step ts l (ztm m) pre _ _ I Hltt (conj Htz Htime) Egh' Hge) as (Lg & Eh' & Ho').
    split; [cbn [Term.all_legal]; split; [exact Lg|exact Logic.I]|].
    cbn [Term.run].
    assert (Ok3 : all_ok2 p w3) by exact Ok2.
    destruct (rollback_hist w3 l past Ok3 Hl2 Hbp) as (R1 & R2 & R3). cbn zeta in R1, R2, R3.
    set (w4 := do_rollback p w3 l past) in *. assert (Hl4 : l < length (k_lps w4)) by (rewrite R3; exact Hl2).
    intros i Hi. destruct (Nat.eq_dec i l) as [->|Hne].
    + exists pre. rewrite Eh'. rewrite (get_lp_set w4 l _ Hl4), fix_bound_hist, R1. reflexivity.
    + rewrite (Ho' i Hne), (get_put_other ck w4 l _ i Hne), (R2 i Hne). change (get_lp w3 i) with (get_lp w2 i). rewrite (Hoth i Hne). apply Hgh. exact Hi.
  - (* an ordinary message: rollback if it is a straggler, then forward execution *)
    change (has 0 FLAG_ANTI) with false. change (m32 (0 + FLAG_PROC)) with 2%N. cbn iota.
    set (w3 := set_flags w2 (flag_set (k_flags w2) (wm_id m) 2)).
    change (x_hist (get_lp w3 l)) with h2. change (x_bound (get_lp w3 l)) with (x_bound (get_lp w2 l)). change (k_flags w3) with (flag_set (k_flags w2) (wm_id m) 2).
    set (f3 := flag_set (k_flags w2) (wm_id m) 2).
    set (strag := match last_proc h2 with Some lastm => (Z.of_N (e_t (wm_ev m)) <=? x_bound (get_lp w2 l))%Z && wbefore f3 m lastm | None => false end).
    intros F' Htime.
    assert (Ok3 : all_ok2 p w3) by exact Ok2.
    assert (Hf3m : fl f3 m = 2%N) by (unfold f3; apply fl_set_same).
    set (sidx := straggler_index f3 m h2) in *.
    (* the state of the termination model and of LP l after the rollback part *)
    assert (Hrb : exists ts1 keep,
              Term.all_legal TMAX ts (if strag then [Term.Rb l (ztm m) (nprocs (skipn sidx h2))] else []) /\
              ts1 = Term.run TMAX ts (if strag then [Term.Rb l (ztm m) (nprocs (skipn sidx h2))] else []) /\
              map fst (nth l (Term.hist ts1) []) = pre ++ map ztm (P keep) /\
              (forall i, i <> l -> nth i (Term.hist ts1) [] = nth i (Term.hist ts) []) /\
              Term.Inv TMAX ts1 /\ length (Term.term ts1) = n /\
              let w4 := if strag then do_rollback p w3 l sidx else w3 in
              x_hist (get_lp w4 l) = keep /\ (forall i, i <> l -> get_lp w4 i = get_lp w3 i) /\ length (k_lps w4) = length (k_lps w3) /\ all_ok2 p w4).
    { destruct strag eqn:Es.
      - unfold strag in Es. destruct (last_proc h2) as [lastm|] eqn:Elast; [|discriminate]. apply andb_true_iff in Es. destruct Es as [_ Ew].
        destruct (straggler_index_spec f3 m h2 lastm Elast Ew) as [Habove _]. cbn zeta in Habove. fold sidx in Habove.
        pose proof (straggler_ge_base p f3 m (get_lp w2 l) lastm Hlok2 Hbase2 Hf3m Hty Elast Ew) as Hbk. fold h2 in Hbk. fold sidx in Hbk.
        cbn [app forallb op_time_ok] in Htime. apply andb_true_iff in Htime. destruct Htime as [Htime _]. apply Z.ltb_lt in Htime.
        assert (Hge : forall c, In c (map ztm (P (skipn sidx h2))) -> (ztm m <= c)%Z).
        { intros c Hc. apply in_map_iff in Hc. destruct Hc as (y & <- & Hy). rewrite (Hund sidx Hbk) in Hy. apply in_procs in Hy.
          unfold ztm. apply N2Z.inj_le. apply (wbefore_le f3). apply Habove. exact Hy. }
        assert (Ek : nprocs (skipn sidx h2) = length (map ztm (P (skipn sidx h2)))) by (rewrite map_length, (Hund sidx Hbk); apply nprocs_procs).
        rewrite Ek.
        assert (Egh' : map fst (nth l (Term.hist ts) []) = (pre ++ map ztm (P (firstn sidx h2))) ++ map ztm (P (skipn sidx h2))).
        { rewrite Egh, (P_split h2 sidx), map_app, app_assoc. reflexivity. }
        destruct (rb_step ts l (ztm m) pre _ _ I Hltt (conj Htz Htime) Egh' Hge) as (Lg & Eh' & Ho').
        destruct (rollback_hist w3 l sidx Ok3 Hl2 Hbk) as (R1 & R2 & R3). cbn zeta in R1, R2, R3.
        eexists. exists (firstn sidx h2). split; [cbn [Term.all_legal]; split; [exact Lg|exact Logic.I]|]. split; [reflexivity|]. cbn [Term.run].
        split; [exact Eh'|]. split; [exact Ho'|]. split; [apply (Term.step_inv TMAX TMAX_pos); assumption|]. split; [rewrite step_term_len; exact Ht|].
        split; [exact R1|]. split; [exact R2|]. split; [exact R3|]. apply do_rollback_ok2; [exact Ok3|]. intros _. apply straggler_index_bnd.
      - exists ts, h2. split; [exact Logic.I|]. split; [reflexivity|]. split; [exact Egh|]. split; [reflexivity|]. split; [exact I|]. split; [exact Ht|].
        split; [reflexivity|]. split; [reflexivity|]. split; [reflexivity|exact Ok3]. }
    destruct Hrb as (ts1 & keep & Lrb & Ets1 & Eg1 & Ho1 & I1 & Ht1 & E4 & O4 & L4 & Ok4). cbn zeta in E4, O4, L4, Ok4.
    set (w4 := if strag then do_rollback p w3 l sidx else w3) in *.
    assert (Hl4 : l < length (k_lps w4)) by (rewrite L4; exact Hl2).
    destruct (get_ok2 p w4 l Ok4 Hl4) as [Hlok4 _].
    destruct (forward_exact p ck w4 l m Hl4 Hlok4) as (W1 & W2 & _). cbn zeta in W1, W2.
    assert (Htm : (ztm m < TMAX)%Z).
    { rewrite forallb_app in Htime. apply andb_true_iff in Htime. destruct Htime as [_ Htime]. cbn [forallb op_time_ok] in Htime.
      rewrite andb_true_r in Htime. apply Z.ltb_lt in Htime. exact Htime. }
    set (pr := can_end p (e_dest (wm_ev m)) _).
    destruct (proc_step ts1 l (ztm m) pr _ I1 ltac:(rewrite Ht1; exact Hln) (conj Htz Htm) Eg1) as (Lp & Eh'' & Ho'').
    split.
    + (* legality of the whole list *)
      destruct strag; cbn [app Term.all_legal] in *; [destruct Lrb as [Lr _]; split; [exact Lr|]; cbn [Term.run] in Ets1; rewrite <- Ets1; split; [exact Lp|exact Logic.I]|].
      cbn [Term.run] in Ets1. rewrite <- Ets1. split; [exact Lp|exact Logic.I].
    + assert (Erun : Term.run TMAX ts ((if strag then [Term.Rb l (ztm m) (nprocs (skipn sidx h2))] else []) ++ [Term.Proc l (ztm m) pr]) = Term.step TMAX ts1 (Term.Proc l (ztm m) pr)).
      { rewrite Ets1. destruct strag; reflexivity. }
      rewrite Erun. intros i Hi. destruct (Nat.eq_dec i l) as [->|Hne].
      * exists pre. rewrite Eh'', W1, E4, !P_app, P_sent. cbn [app]. rewrite map_app, app_assoc. f_equal.
        unfold P. cbn [procs_of flat_map app filter]. assert (En : notinit m = true) by (unfold notinit; apply negb_true_iff; apply N.eqb_neq; unfold tyok in Hty; lia).
        rewrite En. reflexivity.
      * rewrite (Ho'' i Hne), (Ho1 i Hne), (W2 i Hne), (O4 i Hne). change (get_lp w3 i) with (get_lp w2 i). rewrite (Hoth i Hne). apply Hgh. exact Hi.
  - (* cancelled while pending: dropped, no hook *)
    change (has 1 FLAG_ANTI) with true. change (N.eqb 1 (FLAG_ANTI + FLAG_PROC)) with false. change (m32 (1 + FLAG_PROC)) with 3%N. cbn iota.
    intros _ _. split; [exact Logic.I|]. cbn [Term.run].
    set (w3 := set_flags w2 (flag_set (k_flags w2) (wm_id m) 3)).
    assert (Hl3 : l < length (k_lps w3)) by exact Hl2.
    intros i Hi. destruct (Nat.eq_dec i l) as [->|Hne].
    + exists pre. rewrite (get_lp_set w3 l _ Hl3), fix_bound_hist. exact Egh.
    + rewrite (get_put_other ck w3 l _ i Hne). change (get_lp w3 i) with (get_lp w2 i). rewrite (Hoth i Hne). apply Hgh. exact Hi.
Qed.

Lemma run_term_len os : forall s, length (Term.term (Term.run TMAX s os)) = length (Term.term s).
Proof. induction os as [|o r IH]; intros s; cbn [Term.run]; [reflexivity|]. rewrite IH. apply step_term_len. Qed.

Lemma tprocess_TI s : TI s -> TI (tprocess p ck TMAX s).
Proof.
  intros [F Hn I Ht Hgh]. unfold tprocess. destruct (process_msg_full p ck H_time H_type H_dest (tw_w s) F Hn) as [F' Hn'].
  destruct (tw_ovf s) eqn:Eo; cbn [negb andb].
  - constructor; cbn [tw_w tw_t tw_ovf]; try assumption; [rewrite Hn'; exact Hn|discriminate].
  - destruct (forallb (op_time_ok TMAX) (msg_term_ops p ck (tw_w s))) eqn:Eb.
    + destruct (ops_spec (tw_w s) (tw_t s) F Hn I Ht Eb (Hgh eq_refl)) as [Hleg Hgh'].
      constructor; cbn [tw_w tw_t tw_ovf]; [exact F'|rewrite Hn'; exact Hn|apply (Term.run_inv TMAX TMAX_pos); assumption|rewrite run_term_len; exact Ht|intros _; exact Hgh'].
    + constructor; cbn [tw_w tw_t tw_ovf]; try assumption; [rewrite Hn'; exact Hn|discriminate].
Qed.

(* ---------- the other operations leave histories and the termination model alone ---------- *)
Lemma announce_cases d w : k_epoch (announce d w) = k_epoch w \/ (0 < k_gvt (announce d w))%Z.
Proof.
  unfold announce, wq_peek. destruct (min_held _ _) as [t|]; [|left; reflexivity].
  destruct ((Z.of_N t - Z.of_N d <? k_lastgvt (wq_transfer w))%Z || (Z.of_N t - Z.of_N d <=? 0)%Z) eqn:Ec; [left; reflexivity|right].
  apply orb_false_iff in Ec. destruct Ec as [_ Ec]. apply Z.leb_gt in Ec. cbn [k_gvt]. exact Ec.
Qed.

Lemma GH_lps w w' ts : k_lps w' = k_lps w -> GH w ts -> GH w' ts.
Proof. intros E H l Hl. unfold get_lp. rewrite E. apply H. exact Hl. Qed.

Lemma titer_TI k : forall s, TI s -> TI (titer p ck TMAX k s).
Proof. induction k as [|k IH]; intros s H; cbn [titer]; [exact H|]. apply IH. apply tprocess_TI. exact H. Qed.

Lemma move_TI s w' : TI s -> full p w' -> k_lps w' = k_lps (tw_w s) -> TI (mkTw w' (tw_t s) (tw_ovf s)).
Proof.
  intros [F Hn I Ht Hgh] F' E. constructor; cbn [tw_w tw_t tw_ovf]; try assumption; [rewrite E; exact Hn|].
  intros Eo. apply (GH_lps (tw_w s)); [exact E|apply Hgh; exact Eo].
Qed.

Lemma trun_out_TI fuel : forall s, TI s -> TI (trun_out p ck TMAX fuel s).
Proof.
  induction fuel as [|fuel IH]; intros s H; cbn [trun_out]; [exact H|].
  unfold wq_peek. assert (H1 : TI (mkTw (wq_transfer (tw_w s)) (tw_t s) (tw_ovf s))) by (apply move_TI; [exact H|apply transfer_full; exact (ti_full s H)|reflexivity]).
  destruct (k_heap (wq_transfer (tw_w s))); [exact H1|]. apply IH. apply tprocess_TI. exact H1.
Qed.

Lemma twstep_TI s o : TI s -> TI (twstep p ck TMAX s o).
Proof.
  intros H. pose proof (ti_full s H) as F. pose proof (ti_len s H) as Hn.
  destruct o as [k|k|i| |d|fuel]; cbn [twstep].
  - apply titer_TI. exact H.
  - destruct (wstep_full p ck H_time H_type H_dest (tw_w s) (OpH k) F Hn) as [F' _]. destruct (hold_frame k (tw_w s)) as (_ & _ & E & _). apply move_TI; assumption.
  - destruct (wstep_full p ck H_time H_type H_dest (tw_w s) (OpU i) F Hn) as [F' _]. destruct (unhold_frame i (tw_w s)) as (_ & _ & E & _). apply move_TI; assumption.
  - destruct (wstep_full p ck H_time H_type H_dest (tw_w s) OpA F Hn) as [F' _]. destruct (unhold_all_frame (tw_w s)) as (_ & _ & E & _). apply move_TI; assumption.
  - destruct (announce_full p ck d (tw_w s) F) as [F' E]. destruct H as [_ _ I Ht Hgh].
    pose proof (announce_cases d (tw_w s)) as Hac.
    constructor; cbn [tw_w tw_t tw_ovf].
    + exact F'.
    + rewrite E. exact Hn.
    + destruct (Nat.eqb_spec (k_epoch (announce d (tw_w s))) (k_epoch (tw_w s))) as [Ee|Ene]; [exact I|]. apply (Term.step_inv TMAX TMAX_pos); [exact I|]. cbn [Term.legal].
      destruct Hac as [Hc|Hc]; [contradiction|lia].
    + destruct (Nat.eqb _ _); [exact Ht|]. rewrite step_term_len. exact Ht.
    + intros Eo. apply (GH_lps (tw_w s)); [exact E|]. specialize (Hgh Eo). destruct (Nat.eqb _ _); [exact Hgh|].
      cbn [Term.step]. unfold Term.gvt. destruct (Term.votes _ _ _); exact Hgh.
  - apply trun_out_TI. destruct (wstep_full p ck H_time H_type H_dest (tw_w s) OpA F Hn) as [F' _]. cbn [wstep] in F'.
    destruct (unhold_all_frame (tw_w s)) as (_ & _ & E & _). apply move_TI; assumption.
Qed.


(* every hook of a process_msg call carries the timestamp of the extracted message, which is at or above the worker's GVT: the entries a
   vote at a value g <= GVT relies on (recorded below g) are never undone by a later rollback *)
Lemma term_ops_at_or_above_gvt w : full p w -> forall o, In o (msg_term_ops p ck w) ->
  match o with Term.Proc _ t _ => (k_gvt w <= t)%Z | Term.Rb _ t _ => (k_gvt w <= t)%Z | Term.Gvt _ _ => True end.
Proof.
  intros F o. pose proof (extract_spec w (f_good p w F)) as Hex. unfold msg_term_ops.
  destruct (wq_extract w) as [[m|] w1]; [|intros []]. destruct Hex as (_ & Hgm & _). unfold ge in Hgm.
  assert (Hz : (k_gvt w <= ztm m)%Z) by (unfold ztm; exact Hgm).
  destruct (flag_add _ _ _) as [fo f]. destruct (has fo FLAG_ANTI).
  - destruct (N.eqb fo (FLAG_ANTI + FLAG_PROC)); [|intros []]. destruct (anti_index _ _); [|intros []]. intros [<-|[]]. exact Hz.
  - intros Hin. apply in_app_or in Hin. destruct Hin as [Hin|[<-|[]]]; [|exact Hz].
    destruct (match last_proc _ with Some _ => _ | None => false end); [destruct Hin as [<-|[]]; exact Hz|destruct Hin].
Qed.

(* ---------- every script ---------- *)
Lemma tw_init_TI : TI (tw_init p TMAX).
Proof.
  destruct (w_init_full p H_time H_type H_dest (fun me e => app_init p me e Htypes)) as [F Hn].
  unfold tw_init. constructor; cbn [tw_w tw_t tw_ovf].
  - exact F.
  - exact Hn.
  - apply (Term.init_inv TMAX TMAX_pos).
  - unfold Term.t_init. cbn [Term.term]. rewrite !map_length, seq_length. exact Hn.
  - intros _ l Hl. exists []. cbn [app]. unfold Term.t_init. cbn [Term.hist]. rewrite map_map.
    assert (E : nth l (map (fun _ : nat => @nil (Z * bool)) (seq 0 (length (k_lps (w_init p))))) [] = []).
    { clear. generalize (seq 0 (length (k_lps (w_init p)))). intros L. revert l. induction L as [|a L IH]; intros [|l]; cbn; auto. }
    rewrite E. cbn [map]. symmetry.
    (* the initial history of an LP is its LP_INIT group: markers and the LP_INIT entry *)
    destruct (w_init_ini2 p Htypes) as (_ & _ & _ & _ & PH). destruct (PH l ltac:(rewrite Hn; exact Hl)) as (ms & im & Eh & Hi & _).
    rewrite Eh. unfold flat. cbn [flat_map]. rewrite app_nil_r. unfold flat1. rewrite P_app, P_sent. cbn [app fst snd]. unfold P. cbn [procs_of flat_map app filter].
    unfold notinit. unfold is_init in Hi. rewrite Hi, N.eqb_refl. reflexivity.
Qed.

Theorem worker_termination_invariant (ops : list wop) : TI (fold_left (twstep p ck TMAX) ops (tw_init p TMAX)).
Proof.
  generalize tw_init_TI. generalize (tw_init p TMAX). induction ops as [|o r IH]; intros s H; cbn [fold_left]; [exact H|]. apply IH. apply twstep_TI. exact H.
Qed.

(* the worker component is the worker model itself *)
Lemma tprocess_w s : tw_w (tprocess p ck TMAX s) = process_msg p ck (tw_w s).
Proof. unfold tprocess. destruct (_ && _); reflexivity. Qed.
Lemma titer_w k : forall s, tw_w (titer p ck TMAX k s) = iter k (process_msg p ck) (tw_w s).
Proof. induction k as [|k IH]; intros s; cbn [titer iter]; [reflexivity|]. rewrite IH, tprocess_w. reflexivity. Qed.
Lemma trun_out_w fuel : forall s, tw_w (trun_out p ck TMAX fuel s) = fst (run_out p ck fuel (tw_w s)).
Proof.
  induction fuel as [|fuel IH]; intros s; cbn [trun_out run_out]; [reflexivity|]. unfold wq_peek.
  destruct (k_heap (wq_transfer (tw_w s))); cbn [fst]; [reflexivity|]. rewrite IH, tprocess_w. reflexivity.
Qed.
Lemma twstep_w s o : tw_w (twstep p ck TMAX s o) = wstep p ck (tw_w s) o.
Proof. destruct o; cbn [twstep wstep tw_w]; [apply titer_w|reflexivity|reflexivity|reflexivity|reflexivity|apply trun_out_w]. Qed.
Theorem tw_worker (ops : list wop) : tw_w (fold_left (twstep p ck TMAX) ops (tw_init p TMAX)) = fold_left (wstep p ck) ops (w_init p).
Proof.
  assert (G : forall s, tw_w (fold_left (twstep p ck TMAX) ops s) = fold_left (wstep p ck) ops (tw_w s)).
  { induction ops as [|o r IH]; intros s; cbn [fold_left]; [reflexivity|]. rewrite IH, twstep_w. reflexivity. }
  apply G.
Qed.

(* C07 at process.c level: after every script, a vote of the thread at a GVT value g below the termination time means that every
   LP's predicate held at LP_INIT or on an event below g that the termination model still records -- and what it records for the
   LP ends with exactly the timestamps of the processed entries the LP retains *)
Theorem worker_vote_sound (ops : list wop) (g tend : Z) :
  let s := fold_left (twstep p ck TMAX) ops (tw_init p TMAX) in
  Term.votes (tw_t s) g tend = true ->
  (tend <= g)%Z \/
  forall l, l < n ->
    nth l (Term.term (tw_t s)) (-1)%Z = TMAX \/
    exists t, (0 <= t < g)%Z /\ In (t, true) (nth l (Term.hist (tw_t s)) []) /\
              (tw_ovf s = false -> exists pre, map fst (nth l (Term.hist (tw_t s)) []) = pre ++ map ztm (P (x_hist (get_lp (tw_w s) l)))).
Proof.
  intros s Hv. pose proof (worker_termination_invariant ops) as H. fold s in H. destruct H as [F Hn I Ht Hgh].
  destruct (Term.vote_sound TMAX (tw_t s) g tend I Hv) as [Hl|Hr]; [left; exact Hl|right].
  intros l Hl. destruct (Hr l ltac:(rewrite Ht; exact Hl)) as [E|(t & Htg & Hin)]; [left; exact E|right].
  exists t. split; [exact Htg|]. split; [exact Hin|]. intros Eo. apply (Hgh Eo l Hl).
Qed.
End TermProofs.
