(* Safety of GVT-driven fossil collection on the worker model (TW/Worker.v), for every script:
   - every pending message (shared list, heap, held by the network) carries a timestamp at or above the last announced GVT;
   - the private heap is a heap for the timestamp although its comparator reads flag words that change while messages are queued;
   - the processed messages of every LP's history are in timestamp order, none above the LP's bound;
   hence every entry a fossil collection releases lies strictly below the GVT, and every message that can still arrive — and
   so every rollback it can cause — lies at or above it. *)
From Coq Require Import List ZArith NArith Bool Arith Lia Sorted Permutation FMapPositive.
From RS Require Import Order.MsgOrderDefs Heap.HeapList Heap.HeapListProofs Heap.HeapTime TW.App TW.Seq TW.Worker TW.WorkerProofs.
Import ListNotations.

Definition tm (m : wmsg) : N := e_t (wm_ev m).

Lemma wbefore_le f a b : wbefore f a b = true -> (tm a <= tm b)%N.
Proof.
  unfold wbefore, before, rt_msg, tm. cbn [m_t]. intros H. apply orb_true_iff in H. destruct H as [H|H].
  - apply Z.ltb_lt in H. lia.
  - apply andb_true_iff in H. destruct H as [H _]. apply Z.eqb_eq in H. lia.
Qed.
Lemma wbefore_lt f a b : (tm a < tm b)%N -> wbefore f a b = true.
Proof.
  unfold wbefore, before, rt_msg, tm. cbn [m_t]. intros H. apply orb_true_iff. left. apply Z.ltb_lt. lia.
Qed.
Lemma wbefore_compat f : compat wmsg tm (wbefore f).
Proof. split; [apply wbefore_le|apply wbefore_lt]. Qed.

Section Safety.
Variable p : prog.
Variable ck : nat.
(* what is used of the application: a handler never schedules into the past *)
Hypothesis H_time : forall ev st e, In e (snd (handle p ev st)) -> (e_t ev <= e_t e)%N.

Definition heldl (hs : list (option wmsg)) : list wmsg := flat_map (fun h => match h with Some m => [m] | None => [] end) hs.
Definition pend (w : worker) : list wmsg := k_shared w ++ k_heap w ++ heldl (k_held w).
Definition ge (g : Z) (m : wmsg) : Prop := (g <= Z.of_N (tm m))%Z.

Definition ptimes (hist : list entry) : list N :=
  flat_map (fun e => match e with EProc m => [tm m] | ESent _ => [] end) hist.
Definition lp_time (x : lpx) : Prop :=
  StronglySorted N.le (ptimes (x_hist x)) /\ forall t, In t (ptimes (x_hist x)) -> (Z.of_N t <= x_bound x)%Z.

Record good (w : worker) : Prop := {
  s_pend : forall m, In m (pend w) -> ge (k_gvt w) m;
  s_heap : theap wmsg wm_dummy tm (k_heap w);
  s_time : Forall lp_time (k_lps w)
}.
(* the error flag marks an execution in which the C code would have had undefined behaviour: nothing is claimed after it *)
Definition safe (w : worker) : Prop := all_ok2 p w /\ (k_err w = false -> good w).

(* ---------- lists of times ---------- *)
Lemma ptimes_app a b : ptimes (a ++ b) = ptimes a ++ ptimes b.
Proof. unfold ptimes. apply flat_map_app. Qed.
Lemma ptimes_sent ms : all_sent ms -> ptimes ms = [].
Proof.
  induction ms as [|e ms IH]; intros H; [reflexivity|]. inversion H as [|? ? He Hm]; subst.
  destruct e as [m|m]; [|discriminate]. cbn. apply IH. exact Hm.
Qed.
Lemma sorted_app_le (a : list N) x : StronglySorted N.le a -> (forall t, In t a -> (t <= x)%N) -> StronglySorted N.le (a ++ [x]).
Proof.
  induction a as [|y a IH]; intros Hs Hle; cbn; [constructor; [constructor|constructor]|].
  inversion Hs as [|? ? Hs' Hall]; subst. constructor; [apply IH; [exact Hs'|intros t Ht; apply Hle; right; exact Ht]|].
  rewrite Forall_forall in *. intros z Hz. apply in_app_or in Hz. destruct Hz as [Hz|[<-|[]]]; [apply Hall; exact Hz|apply Hle; left; reflexivity].
Qed.
Lemma sorted_firstn {A} (R : A -> A -> Prop) (l : list A) n : StronglySorted R l -> StronglySorted R (firstn n l).
Proof. intros H. rewrite <- (firstn_skipn n l) in H. apply (sorted_app_l R _ _ H). Qed.
Lemma sorted_skipn {A} (R : A -> A -> Prop) (l : list A) n : StronglySorted R l -> StronglySorted R (skipn n l).
Proof. intros H. rewrite <- (firstn_skipn n l) in H. apply (sorted_app_r R _ _ H). Qed.
Lemma ptimes_firstn_incl hist n t : In t (ptimes (firstn n hist)) -> In t (ptimes hist).
Proof. intros H. rewrite <- (firstn_skipn n hist), ptimes_app. apply in_or_app. left. exact H. Qed.
Lemma ptimes_skipn_incl hist n t : In t (ptimes (skipn n hist)) -> In t (ptimes hist).
Proof. intros H. rewrite <- (firstn_skipn n hist), ptimes_app. apply in_or_app. right. exact H. Qed.
Lemma ptimes_split hist n : ptimes hist = ptimes (firstn n hist) ++ ptimes (skipn n hist).
Proof. rewrite <- ptimes_app, firstn_skipn. reflexivity. Qed.
Lemma ptimes_in hist m : In (EProc m) hist -> In (tm m) (ptimes hist).
Proof. intros H. unfold ptimes. apply in_flat_map. exists (EProc m). split; [exact H|left; reflexivity]. Qed.
Lemma in_ptimes hist t : In t (ptimes hist) -> exists m, In (EProc m) hist /\ tm m = t.
Proof.
  unfold ptimes. intros H. apply in_flat_map in H. destruct H as (e & He & Ht). destruct e as [m|m]; [destruct Ht|].
  destruct Ht as [<-|[]]. exists m. split; [exact He|reflexivity].
Qed.

(* ---------- the queue ---------- *)
Lemma fold_insert_perm f ms : forall h, Permutation (fold_left (fun h m => heap_insert wmsg wm_dummy (wbefore f) h m) ms h) (ms ++ h).
Proof.
  induction ms as [|m ms IH]; intros h; cbn; [reflexivity|].
  eapply perm_trans; [apply IH|]. eapply perm_trans; [apply Permutation_app_head; apply heap_insert_perm|].
  apply Permutation_sym. apply Permutation_middle.
Qed.
Lemma fold_insert_theap f ms : forall h, theap wmsg wm_dummy tm h ->
  theap wmsg wm_dummy tm (fold_left (fun h m => heap_insert wmsg wm_dummy (wbefore f) h m) ms h).
Proof.
  induction ms as [|m ms IH]; intros h Hh; cbn; [exact Hh|]. apply IH. apply heap_insert_theap; [apply wbefore_compat|exact Hh].
Qed.

Lemma transfer_pend w m : In m (pend (wq_transfer w)) <-> In m (pend w).
Proof.
  unfold pend, wq_transfer. cbn [k_shared k_heap k_held set_queue app].
  rewrite !in_app_iff.
  split.
  - intros [H|H]; [|right; right; exact H].
    apply (Permutation_in _ (fold_insert_perm (k_flags w) (k_shared w) (k_heap w))) in H. apply in_app_or in H. tauto.
  - intros [H|[H|H]]; [left| left |right; exact H];
    apply (Permutation_in _ (Permutation_sym (fold_insert_perm (k_flags w) (k_shared w) (k_heap w)))); apply in_or_app; tauto.
Qed.

Lemma transfer_good w : good w -> good (wq_transfer w).
Proof.
  intros [H2 H3 H4]. constructor; [|apply fold_insert_theap; exact H3|exact H4].
  intros m Hm. apply (proj1 (transfer_pend w m)) in Hm. apply H2. exact Hm.
Qed.

Lemma extract_spec w : good w ->
  match wq_extract w with
  | (None, w1) => good w1 /\ k_err w1 = k_err w /\ k_lps w1 = k_lps w
  | (Some m, w1) => good w1 /\ ge (k_gvt w) m /\ k_gvt w1 = k_gvt w /\ k_flags w1 = k_flags w /\ k_held w1 = k_held w /\
                    k_epoch w1 = k_epoch w /\ k_lastgvt w1 = k_lastgvt w /\ k_err w1 = k_err w /\ k_lps w1 = k_lps w /\
                    (forall x, In x (pend w1) -> In x (pend w))
  end.
Proof.
  intros Hs. pose proof (transfer_good w Hs) as Ht. unfold wq_extract.
  destruct (heap_extract wmsg wm_dummy (wbefore (k_flags (wq_transfer w))) (k_heap (wq_transfer w))) as [[m h']|] eqn:E; [|split; [exact Ht|split; reflexivity]].
  pose proof (heap_extract_perm wmsg wm_dummy _ _ _ _ E) as Hp.
  destruct Ht as [T2 T3 T4].
  assert (Hin : forall x, In x (pend (set_queue (wq_transfer w) [] h')) -> In x (pend (wq_transfer w))).
  { intros x. unfold pend. cbn [k_shared k_heap k_held set_queue]. rewrite !in_app_iff.
    intros [[]|[Hx|Hx]]; right; [left; apply (Permutation_in _ Hp); right; exact Hx|right; exact Hx]. }
  split; [|split; [|repeat split; try reflexivity]].
  - constructor; [|exact (heap_extract_theap wmsg wm_dummy tm _ _ _ _ (wbefore_compat _) T3 E)|exact T4].
    intros x Hx. apply (T2 x). apply Hin. exact Hx.
  - apply (T2 m). unfold pend. rewrite !in_app_iff. right. left. apply (Permutation_in _ Hp). left. reflexivity.
  - intros x Hx. apply (proj1 (transfer_pend w x)). apply Hin. exact Hx.
Qed.

(* ---------- the markers of undone groups are not earlier than their events ---------- *)
Lemma hist_ok_sent_ge es : forall st pend (lo : N), hist_ok p st pend es ->
  (forall m, In (EProc m) es -> (lo <= tm m)%N) ->
  (forall ev, In ev pend -> es <> [] -> (lo <= e_t ev)%N) /\ (forall m, In (ESent m) es -> (lo <= tm m)%N).
Proof.
  induction es as [|e es IH]; intros st pend lo H Hp.
  - split; [intros ev _ Hne; congruence|intros m []].
  - destruct e as [m|m]; cbn [hist_ok] in H.
    + destruct es as [|e2 es2] eqn:Ees.
      * (* a trailing marker cannot exist: hist_ok on [] wants pend = [] *)
        cbn in H. destruct pend; discriminate.
      * rewrite <- Ees in *.
        destruct (IH st (pend ++ [wm_ev m]) lo H ltac:(intros x Hx; apply Hp; right; exact Hx)) as [I1 I2].
        assert (Hne : es <> []) by (rewrite Ees; discriminate).
        split.
        -- intros ev Hev _. apply I1; [apply in_or_app; left; exact Hev|exact Hne].
        -- intros x [Hx|Hx]; [injection Hx as <-; apply (I1 (wm_ev m)); [apply in_or_app; right; left; reflexivity|exact Hne]|apply I2; exact Hx].
    + destruct H as [Epend Hr].
      assert (Hm : (lo <= tm m)%N) by (apply Hp; left; reflexivity).
      split.
      * intros ev Hev _. rewrite Epend in Hev. pose proof (H_time _ _ _ Hev) as Ht. unfold tm in Hm. lia.
      * intros x [Hx|Hx]; [discriminate|].
        destruct (IH _ [] lo Hr ltac:(intros y Hy; apply Hp; right; exact Hy)) as [_ I2]. apply I2. exact Hx.
Qed.

(* ---------- undoing entries only adds their own messages to the queue ---------- *)
Lemma undo_entry_frame w e :
  k_gvt (undo_entry w e) = k_gvt w /\ k_heap (undo_entry w e) = k_heap w /\ k_held (undo_entry w e) = k_held w /\
  k_epoch (undo_entry w e) = k_epoch w /\ k_lastgvt (undo_entry w e) = k_lastgvt w /\
  forall x, In x (pend (undo_entry w e)) -> In x (pend w) \/ x = entry_msg e.
Proof.
  unfold undo_entry. destruct e as [m|m].
  - destruct (flag_add (k_flags w) (wm_id m) FLAG_ANTI) as [o f]. destruct (has o FLAG_PROC); cbn; repeat split; try reflexivity.
    + intros x [<-|Hx]; [right; reflexivity|left; exact Hx].
    + intros x Hx. left. exact Hx.
  - destruct (flag_sub (k_flags w) (wm_id m) FLAG_PROC) as [o f]. destruct (has o FLAG_ANTI); cbn; repeat split; try reflexivity.
    + intros x Hx. left. exact Hx.
    + intros x [<-|Hx]; [right; reflexivity|left; exact Hx].
Qed.

Lemma undo_all_frame es : forall w,
  let w1 := fold_left undo_entry es w in
  k_gvt w1 = k_gvt w /\ k_heap w1 = k_heap w /\ k_held w1 = k_held w /\ k_epoch w1 = k_epoch w /\ k_lastgvt w1 = k_lastgvt w /\
  forall x, In x (pend w1) -> In x (pend w) \/ In x (map entry_msg es).
Proof.
  induction es as [|e es IH]; intros w; cbn [fold_left map].
  - repeat split; try reflexivity. intros x Hx. left. exact Hx.
  - destruct (undo_entry_frame w e) as (A1 & A2 & A3 & A4 & A5 & A6).
    destruct (IH (undo_entry w e)) as (B1 & B2 & B3 & B4 & B5 & B6). cbn zeta in *.
    rewrite B1, B2, B3, B4, B5, A1, A2, A3, A4, A5. repeat split; try reflexivity.
    intros x Hx. destruct (B6 x Hx) as [H|H]; [destruct (A6 x H) as [H'|H']; [left; exact H'|right; left; symmetry; exact H']|right; right; exact H].
Qed.

Lemma set_nth_forall2 {A} (P : A -> Prop) (l : list A) i x : Forall P l -> (i < length l -> P x) -> Forall P (set_nth l i x).
Proof. apply set_nth_forall. Qed.

Lemma lp_time_firstn x n b st logs rem ep : lp_time x -> (forall t, In t (ptimes (firstn n (x_hist x))) -> (Z.of_N t <= b)%Z) ->
  lp_time (mkLpx (firstn n (x_hist x)) b st logs rem ep).
Proof.
  intros [Hs Hb] Hb'. split; cbn [x_hist x_bound]; [|exact Hb'].
  rewrite (ptimes_split (x_hist x) n) in Hs. apply (sorted_app_l _ _ _ Hs).
Qed.

Lemma undo_all_err es : forall w, k_err (fold_left undo_entry es w) = k_err w.
Proof.
  induction es as [|e es IH]; intros w; cbn; [reflexivity|]. rewrite IH.
  unfold undo_entry. destruct e as [m|m].
  - destruct (flag_add _ _ _) as [o f]. destruct (has o FLAG_PROC); reflexivity.
  - destruct (flag_sub _ _ _) as [o f]. destruct (has o FLAG_ANTI); reflexivity.
Qed.
Lemma set_nth_length {A} (l : list A) : forall i x, length (set_nth l i x) = length l.
Proof. induction l as [|h t IH]; intros [|i] x; cbn; auto. Qed.
Lemma nth_set_nth {A} (l : list A) d : forall i x, i < length l -> nth i (set_nth l i x) d = x.
Proof. induction l as [|h t IH]; intros [|i] x H; cbn in *; try lia; [reflexivity|]. apply IH. lia. Qed.
Lemma nth_set_nth_other {A} (l : list A) d : forall i j x, i <> j -> nth i (set_nth l j x) d = nth i l d.
Proof. induction l as [|h t IH]; intros [|i] [|j] x H; cbn; try reflexivity; try lia. apply IH. lia. Qed.

(* do_rollback: when it does not raise the error flag, everything it puts back into the queue is at or above the GVT *)
Lemma do_rollback_good w l past (lo : N) : all_ok2 p w -> good w ->
  bnd (x_hist (get_lp w l)) past -> (k_gvt w <= Z.of_N lo)%Z ->
  (forall m, In (EProc m) (skipn past (x_hist (get_lp w l))) -> (lo <= tm m)%N) ->
  let w' := do_rollback p w l past in
  k_err w' = false ->
  good w' /\ k_err w = false /\ k_gvt w' = k_gvt w /\ k_epoch w' = k_epoch w /\ k_lastgvt w' = k_lastgvt w /\ k_held w' = k_held w /\
  length (k_lps w') = length (k_lps w) /\
  x_hist (get_lp w' l) = firstn past (x_hist (get_lp w l)) /\ x_bound (get_lp w' l) = x_bound (get_lp w l).
Proof.
  intros Hok2 [S2 S3 S4] Hbnd Hlo Hproc w' Herr.
  assert (Hl : l < length (k_lps w)).
  { destruct (Nat.lt_ge_cases l (length (k_lps w))) as [H|H]; [exact H|exfalso].
    unfold w', do_rollback in Herr. unfold get_lp in Herr. rewrite (nth_overflow (k_lps w) lpx_dummy H) in Herr. cbn in Herr. discriminate. }
  assert (Hge : drop_newer (x_logs (get_lp w l)) past <> [] ->
                forall e, In e (skipn past (x_hist (get_lp w l))) -> ge (k_gvt w) (entry_msg e)).
  { intros Hne e He.
    destruct (get_ok2 p w l Hok2 Hl) as [(newer & r0 & s0 & El & Hs & Hsn & Hst) [Hh Hb]].
    assert (Eb : base (get_lp w l) = (r0, s0)) by (unfold base; rewrite El; apply last_last).
    rewrite Eb in Hh. cbn [fst snd] in Hh.
    pose proof (drop_newer_spec (x_logs (get_lp w l)) past Hs) as Hspec.
    destruct (drop_newer (x_logs (get_lp w l)) past) as [|[ref snap] older] eqn:Hd; [congruence|].
    destruct Hspec as (pre & E & Hle & _). cbn [fst] in Hle.
    assert (Hr0 : r0 <= past).
    { assert (r0 <= ref); [|lia]. apply (base_least newer r0 s0 ref snap); [rewrite <- El; exact Hs|rewrite <- El, E; apply in_or_app; right; left; reflexivity]. }
    destruct (Nat.le_gt_cases past (length (x_hist (get_lp w l)))) as [Hpl|Hpl]; [|rewrite skipn_all2 in He by lia; destruct He].
    destruct (hist_ok_bnd p (skipn r0 (x_hist (get_lp w l))) s0 (past - r0) Hh) as [_ H2].
    { apply bnd_skipn; [exact Hbnd|exact Hr0]. }
    { rewrite skipn_length. lia. }
    rewrite skipn_skipn in H2. replace (past - r0 + r0) with past in H2 by lia.
    destruct (hist_ok_sent_ge _ _ [] lo H2 Hproc) as [_ Hsent].
    unfold ge. destruct e as [m|m]; cbn [entry_msg]; [specialize (Hsent m He)|specialize (Hproc m He)]; lia. }
  revert Hge. unfold w', do_rollback in *. intros Hge.
  set (es := skipn past (x_hist (get_lp w l))) in *.
  destruct (undo_all_frame es w) as (B1 & B2 & B3 & B4 & B5 & B6). cbn zeta in *.
  set (w1 := fold_left undo_entry es w) in *.
  assert (E1 : k_lps w1 = k_lps w) by apply undo_all_lps.
  assert (Eerr : k_err w1 = k_err w) by apply undo_all_err.
  assert (Hpend : drop_newer (x_logs (get_lp w l)) past <> [] -> forall x, In x (pend w1) -> ge (k_gvt w) x).
  { intros Hne x Hx. destruct (B6 x Hx) as [H|H]; [apply S2; exact H|]. apply in_map_iff in H. destruct H as (e & <- & He). apply (Hge Hne). exact He. }
  destruct (drop_newer (x_logs (get_lp w l)) past) as [|[ref snap] older] eqn:Hd; [cbn in Herr; discriminate|].
  specialize (Hpend ltac:(discriminate)).
  cbn [k_err put_lp set_lps] in Herr. rewrite Eerr in Herr.
  assert (Hlen : length (set_nth (k_lps w1) l (mkLpx (firstn past (x_hist (get_lp w l))) (x_bound (get_lp w l))
            (replay p snap (sub (firstn past (x_hist (get_lp w l))) ref past)) ((ref, snap) :: older) (x_rem (get_lp w l)) (x_epoch (get_lp w l)))) = length (k_lps w)).
  { rewrite set_nth_length, E1. reflexivity. }
  split; [|split; [exact Herr|cbn; rewrite B1, B3, B4, B5; repeat split; try reflexivity; try exact Hlen]].
  - constructor; cbn [put_lp set_lps k_gvt k_heap k_lps k_shared k_held pend].
    + intros x Hx. rewrite B1. apply Hpend. exact Hx.
    + rewrite B2. exact S3.
    + apply set_nth_forall; [rewrite E1; exact S4|]. intros _.
      rewrite Forall_forall in S4. specialize (S4 (get_lp w l) ltac:(unfold get_lp; apply nth_In; exact Hl)).
      apply lp_time_firstn; [exact S4|]. intros t Ht. apply (proj2 S4). apply (ptimes_firstn_incl _ _ _ Ht).
  - unfold get_lp. cbn [put_lp set_lps k_lps]. rewrite nth_set_nth by (rewrite E1; exact Hl). reflexivity.
  - unfold get_lp. cbn [put_lp set_lps k_lps]. rewrite nth_set_nth by (rewrite E1; exact Hl). reflexivity.
Qed.


(* ---------- what the straggler scan leaves and what it undoes ---------- *)
Lemma skipn_app_le {A} (a b : list A) k : k <= length a -> skipn k (a ++ b) = skipn k a ++ b.
Proof. intros H. rewrite skipn_app. replace (k - length a) with 0 by lia. reflexivity. Qed.

Lemma match_straggler_spec f s rh : forall i, length rh = i ->
  let k := match_straggler f s rh i in
  (forall m, In (EProc m) (skipn k (rev rh)) -> wbefore f s m = true) /\
  (k = 0 \/ exists e, nth_error (rev rh) (pred k) = Some (EProc e) /\ wbefore f s e = false).
Proof.
  induction rh as [|e r IH]; intros i Hl; cbn in Hl; subst i; cbn [match_straggler length].
  - cbn. split; [intros m []|left; reflexivity].
  - cbn zeta. destruct (IH (length r) eq_refl) as [Ha Hs]. cbn zeta in Ha, Hs.
    destruct (match_straggler_bnd f s r (length r) eq_refl) as [Hk _]. cbn zeta in Hk.
    set (k := match_straggler f s r (length r)) in *.
    assert (Hrec : forall e0, (forall m, e0 = EProc m -> wbefore f s m = true) ->
              (forall m, In (EProc m) (skipn k (rev (e0 :: r))) -> wbefore f s m = true) /\
              (k = 0 \/ exists e', nth_error (rev (e0 :: r)) (pred k) = Some (EProc e') /\ wbefore f s e' = false)).
    { intros e0 He0. cbn [rev]. split.
      - intros m Hm. rewrite skipn_app_le in Hm by (rewrite rev_length; exact Hk). apply in_app_or in Hm.
        destruct Hm as [Hm|[Hm|[]]]; [apply Ha; exact Hm|apply He0; exact Hm].
      - destruct Hs as [->|(e' & Hn & Hw)]; [left; reflexivity|]. right. exists e'. split; [|exact Hw].
        rewrite nth_error_app1; [exact Hn|]. apply nth_error_Some. rewrite Hn. discriminate. }
    destruct e as [m|m]; [apply Hrec; intros m0 Hm0; discriminate|].
    destruct (wbefore f s m) eqn:Ew; [apply Hrec; intros m0 Hm0; injection Hm0 as <-; exact Ew|].
    split.
    + intros m0 Hm0. cbn [rev] in Hm0. rewrite skipn_all2 in Hm0 by (rewrite app_length, rev_length; cbn; lia). destruct Hm0.
    + right. exists m. cbn [pred rev]. rewrite nth_error_app2 by (rewrite rev_length; lia). rewrite rev_length, Nat.sub_diag. split; [reflexivity|exact Ew].
Qed.

Lemma straggler_index_spec f s hist lastm : last_proc hist = Some lastm -> wbefore f s lastm = true ->
  let k := straggler_index f s hist in
  (forall m, In (EProc m) (skipn k hist) -> wbefore f s m = true) /\
  (k = 0 \/ exists e, nth_error hist (pred k) = Some (EProc e) /\ wbefore f s e = false).
Proof.
  intros Hlast Hw. unfold straggler_index, last_proc in *. destruct (rev hist) as [|lst below] eqn:E; [discriminate|].
  destruct lst as [ml|ml]; [discriminate|]. injection Hlast as ->.
  assert (Eh : hist = rev below ++ [EProc lastm]) by (rewrite <- (rev_involutive hist), E; reflexivity).
  assert (Hl : length below = length hist - 1) by (rewrite Eh, app_length, rev_length; cbn; lia).
  destruct (match_straggler_spec f s below (length hist - 1) Hl) as [Ha Hs].
  destruct (match_straggler_bnd f s below (length hist - 1) Hl) as [Hk _]. cbn zeta in *.
  set (k := match_straggler f s below (length hist - 1)) in *. clearbody k.
  split.
  - intros m Hm. rewrite Eh in Hm. rewrite skipn_app_le in Hm by (rewrite rev_length; lia). apply in_app_or in Hm.
    destruct Hm as [Hm|[Hm|[]]]; [apply Ha; exact Hm|injection Hm as <-; exact Hw].
  - destruct Hs as [->|(e & Hn & He)]; [left; reflexivity|]. right. exists e. split; [|exact He].
    rewrite Eh. rewrite nth_error_app1; [exact Hn|]. apply nth_error_Some. rewrite Hn. discriminate.
Qed.

(* everything at or after index k of a time-sorted history is not earlier than the processed message just below k *)
Lemma sorted_last_max (a : list N) x : StronglySorted N.le (a ++ [x]) -> forall t, In t a -> (t <= x)%N.
Proof. intros H t Ht. apply (sorted_app_cross N.le a [x] t x H Ht). left. reflexivity. Qed.

Lemma firstn_snoc {A} (l : list A) k x : nth_error l k = Some x -> firstn (S k) l = firstn k l ++ [x].
Proof.
  revert k. induction l as [|y l IH]; intros [|k] H; cbn in *; try discriminate.
  - injection H as ->. reflexivity.
  - f_equal. apply IH. exact H.
Qed.

Lemma ptimes_below hist k e : StronglySorted N.le (ptimes hist) -> nth_error hist (pred k) = Some (EProc e) -> 0 < k ->
  forall t, In t (ptimes (firstn k hist)) -> (t <= tm e)%N.
Proof.
  intros Hs Hn Hk t Ht. destruct k as [|k]; [lia|]. cbn [pred] in Hn.
  rewrite (firstn_snoc hist k (EProc e) Hn) in Ht. rewrite ptimes_app in Ht. cbn in Ht.
  apply in_app_or in Ht. destruct Ht as [Ht|[<-|[]]]; [|apply N.le_refl].
  assert (Hs' : StronglySorted N.le (ptimes (firstn k hist) ++ [tm e])).
  { rewrite (ptimes_split hist (S k)) in Hs. apply sorted_app_l in Hs. rewrite (firstn_snoc hist k (EProc e) Hn), ptimes_app in Hs. exact Hs. }
  apply (sorted_last_max _ _ Hs' t Ht).
Qed.

Lemma ptimes_above hist k e : StronglySorted N.le (ptimes hist) -> nth_error hist k = Some (EProc e) ->
  forall t, In t (ptimes (skipn (S k) hist)) -> (tm e <= t)%N.
Proof.
  intros Hs Hn t Ht. rewrite (ptimes_split hist (S k)) in Hs. rewrite (firstn_snoc hist k (EProc e) Hn), ptimes_app in Hs. cbn in Hs.
  apply (sorted_app_cross N.le _ _ (tm e) t Hs); [apply in_or_app; right; left; reflexivity|exact Ht].
Qed.


(* ---------- a cancellation: what it finds and what it undoes ---------- *)
Lemma wmsg_eqb_eq a b : wmsg_eqb a b = true -> a = b.
Proof.
  unfold wmsg_eqb. intros H. apply andb_true_iff in H. destruct H as [H1 H2]. apply Pos.eqb_eq in H1.
  destruct (event_eq_dec (wm_ev a) (wm_ev b)) as [E|]; [|discriminate]. destruct a, b. cbn in *. subst. reflexivity.
Qed.

Lemma find_proc_found a rh : forall i j below, length rh = i -> find_proc a rh i = Some (j, below) ->
  exists pre, rh = pre ++ EProc a :: below /\ length below = j.
Proof.
  induction rh as [|e r IH]; intros i j below Hl H; cbn in Hl; subst i; cbn [find_proc length] in H; [discriminate|].
  assert (Hrec : find_proc a r (length r) = Some (j, below) -> exists pre, e :: r = pre ++ EProc a :: below /\ length below = j).
  { intros H'. destruct (IH (length r) j below eq_refl H') as (pre & E & Hb). exists (e :: pre). split; [rewrite E; reflexivity|exact Hb]. }
  destruct e as [m|m]; [apply Hrec; exact H|]. destruct (wmsg_eqb m a) eqn:Eq; [|apply Hrec; exact H].
  injection H as <- <-. apply wmsg_eqb_eq in Eq. subst m. exists []. split; reflexivity.
Qed.

Lemma group_start_sent rh : forall i, length rh = i -> forall q, group_start rh i <= q < i -> exists m, nth_error (rev rh) q = Some (ESent m).
Proof.
  induction rh as [|e r IH]; intros i Hl q Hq; cbn in Hl; subst i; cbn [group_start length] in Hq; [lia|].
  destruct e as [m|m]; cbn [is_proc] in Hq; [|lia].
  cbn [rev]. destruct (Nat.eq_dec q (length r)) as [->|Hne].
  - exists m. rewrite nth_error_app2 by (rewrite rev_length; lia). rewrite rev_length, Nat.sub_diag. reflexivity.
  - destruct (IH (length r) eq_refl q ltac:(lia)) as (m' & Hm'). exists m'. rewrite nth_error_app1; [exact Hm'|rewrite rev_length; lia].
Qed.

Lemma anti_index_spec a hist k : anti_index a hist = Some k ->
  exists j, k <= j /\ nth_error hist j = Some (EProc a) /\ forall q, k <= q < j -> exists m, nth_error hist q = Some (ESent m).
Proof.
  unfold anti_index. destruct (find_proc a (rev hist) (length hist)) as [[j below]|] eqn:Ef; [|discriminate].
  intros H. injection H as <-.
  destruct (find_proc_found a (rev hist) (length hist) j below (rev_length hist) Ef) as (pre & E & Hlb).
  assert (Eh : hist = rev below ++ EProc a :: rev pre).
  { rewrite <- (rev_involutive hist), E, rev_app_distr. cbn [rev]. rewrite <- app_assoc. reflexivity. }
  destruct (group_start_bnd below j Hlb) as [Hk _].
  exists j. split; [exact Hk|]. split.
  - rewrite Eh. rewrite nth_error_app2 by (rewrite rev_length; lia). rewrite rev_length, Hlb, Nat.sub_diag. reflexivity.
  - intros q Hq. destruct (group_start_sent below j Hlb q Hq) as (m & Hm). exists m. rewrite Eh.
    rewrite nth_error_app1; [exact Hm|rewrite rev_length; lia].
Qed.

(* every processed message from index k on is not earlier than a, in a time-sorted history where a sits at j >= k with markers between *)
Lemma anti_undone_ge hist k j a : StronglySorted N.le (ptimes hist) -> k <= j -> nth_error hist j = Some (EProc a) ->
  (forall q, k <= q < j -> exists m, nth_error hist q = Some (ESent m)) ->
  forall m, In (EProc m) (skipn k hist) -> (tm a <= tm m)%N.
Proof.
  intros Hs Hkj Hn Hsent m Hm.
  apply In_nth_error in Hm. destruct Hm as (i & Hi). rewrite nth_error_skipn_add in Hi.
  destruct (Nat.lt_trichotomy (k + i) j) as [Hlt|[Heq|Hgt]].
  - destruct (Hsent (k + i) ltac:(lia)) as (m' & Hm'). rewrite Hm' in Hi. discriminate.
  - rewrite Heq, Hn in Hi. injection Hi as <-. apply N.le_refl.
  - apply (ptimes_above hist j a Hs Hn). apply ptimes_in.
    apply nth_error_In with (n := k + i - S j). rewrite nth_error_skipn_add. replace (S j + (k + i - S j)) with (k + i) by lia. exact Hi.
Qed.


(* ---------- forward execution ---------- *)
Lemma send_all_frame outs : forall w acc,
  let w1 := fst (send_all w outs acc) in
  k_gvt w1 = k_gvt w /\ k_heap w1 = k_heap w /\ k_held w1 = k_held w /\ k_epoch w1 = k_epoch w /\ k_lastgvt w1 = k_lastgvt w /\
  k_err w1 = k_err w /\
  forall x, In x (pend w1) -> In x (pend w) \/ In (wm_ev x) outs.
Proof.
  induction outs as [|e r IH]; intros w acc; cbn [send_all fst].
  - repeat split; try reflexivity. intros x Hx. left. exact Hx.
  - match goal with |- context [send_all ?w0 r ?a] => destruct (IH w0 a) as (B1 & B2 & B3 & B4 & B5 & B6 & B7) end.
    cbn zeta in *. rewrite B1, B2, B3, B4, B5, B6. cbn. repeat split; try reflexivity.
    intros x Hx. destruct (B7 x Hx) as [H|H]; [|right; right; exact H].
    unfold pend in H. cbn [k_shared k_heap k_held] in H. cbn [app] in H. destruct H as [<-|H]; [right; left; reflexivity|left; exact H].
Qed.

Lemma forward_good w l m : good w -> ge (k_gvt w) m ->
  (l < length (k_lps w) -> forall t, In t (ptimes (x_hist (get_lp w l))) -> (t <= tm m)%N) ->
  good (forward p ck w l m) /\ k_err (forward p ck w l m) = k_err w /\ k_gvt (forward p ck w l m) = k_gvt w.
Proof.
  intros [S2 S3 S4] Hgm Hle0. unfold forward.
  destruct (handle p (wm_ev m) (x_st (get_lp w l))) as [st' outs] eqn:Eh.
  destruct (send_all_frame outs w []) as (B1 & B2 & B3 & B4 & B5 & B6 & B7). cbn zeta in *.
  pose proof (send_all_lps outs w []) as E1.
  pose proof (send_all_marks outs w [] (Forall_nil _)) as Hm.
  destruct (send_all w outs []) as [w1 marks] eqn:Es. cbn [fst snd] in *.
  split; [|cbn; rewrite B6, B1; split; reflexivity].
  constructor; cbn [put_lp set_lps k_gvt k_heap k_lps].
  - intros x Hx. rewrite B1. unfold pend in Hx. cbn [k_shared k_heap k_held put_lp set_lps] in Hx.
    destruct (B7 x Hx) as [H|H]; [apply S2; exact H|].
    assert (Ho : In (wm_ev x) (snd (handle p (wm_ev m) (x_st (get_lp w l))))) by (rewrite Eh; exact H).
    pose proof (H_time _ _ _ Ho) as Ht. unfold ge, tm in *. lia.
  - rewrite B2. exact S3.
  - apply set_nth_forall; [rewrite E1; exact S4|]. intros Hl. rewrite E1 in Hl. pose proof (Hle0 Hl) as Hle.
    rewrite Forall_forall in S4. destruct (S4 (get_lp w l) ltac:(unfold get_lp; apply nth_In; exact Hl)) as [Hs Hb].
    split; cbn [x_hist x_bound].
    + rewrite !ptimes_app, (ptimes_sent _ Hm). cbn [app ptimes flat_map]. apply sorted_app_le; [exact Hs|exact Hle].
    + intros t Ht. rewrite !ptimes_app, (ptimes_sent _ Hm) in Ht. cbn in Ht. apply in_app_or in Ht.
      destruct Ht as [Ht|[<-|[]]]; [specialize (Hle t Ht); unfold tm in *; lia|unfold tm; lia].
Qed.

(* ---------- fossil collection: what it releases lies below the GVT ---------- *)
Lemma newest_below_spec gvt rh : forall i j, length rh = i -> newest_below gvt rh i = Some j ->
  exists m, nth_error (rev rh) j = Some (EProc m) /\ (Z.of_N (tm m) < gvt)%Z /\ j < i.
Proof.
  induction rh as [|e r IH]; intros i j Hl H; cbn in Hl; subst i; cbn [newest_below length] in H; [discriminate|].
  assert (Hrec : newest_below gvt r (length r) = Some j -> exists m, nth_error (rev (e :: r)) j = Some (EProc m) /\ (Z.of_N (tm m) < gvt)%Z /\ j < S (length r)).
  { intros H'. destruct (IH (length r) j eq_refl H') as (m & Hn & Ht & Hj). exists m. cbn [rev]. rewrite nth_error_app1 by (rewrite rev_length; exact Hj).
    split; [exact Hn|split; [exact Ht|lia]]. }
  destruct e as [m|m]; [apply Hrec; exact H|]. destruct (Z.ltb_spec (Z.of_N (e_t (wm_ev m))) gvt) as [Hlt|Hge]; [|apply Hrec; exact H].
  injection H as <-. exists m. cbn [rev]. rewrite nth_error_app2 by (rewrite rev_length; lia). rewrite rev_length, Nat.sub_diag.
  split; [reflexivity|split; [exact Hlt|lia]].
Qed.

(* The released prefix of a fossil collection: every processed message in it is strictly below the GVT *)
Theorem fossil_releases_below x gvt past ref snap older :
  StronglySorted N.le (ptimes (x_hist x)) ->
  newest_below gvt (rev (x_hist x)) (length (x_hist x)) = Some past ->
  StronglySorted decr (x_logs x) -> drop_newer (x_logs x) (past + 1) = (ref, snap) :: older ->
  forall m, In (EProc m) (firstn ref (x_hist x)) -> (Z.of_N (tm m) < gvt)%Z.
Proof.
  intros Hs Hn Hlogs Hd m Hm.
  destruct (newest_below_spec gvt (rev (x_hist x)) (length (x_hist x)) past (rev_length _) Hn) as (m0 & Hn0 & Ht0 & Hp).
  rewrite rev_involutive in Hn0.
  pose proof (drop_newer_spec (x_logs x) (past + 1) Hlogs) as Hspec. rewrite Hd in Hspec. destruct Hspec as (_ & _ & Hle & _). cbn [fst] in Hle.
  assert (Hin : In (tm m) (ptimes (firstn (S past) (x_hist x)))).
  { apply ptimes_in. rewrite <- (firstn_skipn ref (firstn (S past) (x_hist x))). apply in_or_app. left.
    rewrite firstn_firstn. replace (Nat.min ref (S past)) with ref by lia. exact Hm. }
  pose proof (ptimes_below (x_hist x) (S past) m0 Hs Hn0 ltac:(lia) (tm m) Hin). lia.
Qed.

Lemma fossil_good w l : good w -> good (fossil_lp w l) /\ k_err (fossil_lp w l) = k_err w \/ k_err (fossil_lp w l) = true.
Proof.
  intros [S2 S3 S4]. unfold fossil_lp.
  destruct (newest_below (k_gvt w) (rev (x_hist (get_lp w l))) (length (x_hist (get_lp w l)))) as [past|]; [|left; split; [constructor; assumption|reflexivity]].
  destruct (drop_newer (x_logs (get_lp w l)) (past + 1)) as [|[ref snap] older] eqn:Hd; [right; reflexivity|].
  left. split; [|reflexivity]. constructor; cbn [put_lp set_lps k_gvt k_heap k_lps]; [exact S2|exact S3|].
  apply set_nth_forall; [exact S4|]. intros Hl.
  rewrite Forall_forall in S4. destruct (S4 (get_lp w l) ltac:(unfold get_lp; apply nth_In; exact Hl)) as [Hs Hb].
  split; cbn [x_hist x_bound].
  - rewrite (ptimes_split (x_hist (get_lp w l)) ref) in Hs. apply (sorted_app_r _ _ _ Hs).
  - intros t Ht. apply Hb. apply (ptimes_skipn_incl _ _ _ Ht).
Qed.

Lemma fix_bound_time x : lp_time x -> lp_time (fix_bound x).
Proof. intros H. unfold fix_bound. destruct (x_hist x) eqn:E; [|exact H]. split; cbn; [constructor|intros t []]. Qed.


(* ---------- the error flag is sticky ---------- *)
Lemma extract_err w : k_err (snd (wq_extract w)) = k_err w.
Proof. unfold wq_extract. destruct (heap_extract _ _ _ _) as [[m h]|]; reflexivity. Qed.
Lemma do_rollback_err w l past : k_err (do_rollback p w l past) = false -> k_err w = false.
Proof.
  unfold do_rollback. destruct (drop_newer _ _) as [|[ref snap] older]; cbn; [discriminate|]. rewrite undo_all_err. auto.
Qed.
Lemma fossil_err w l : k_err (fossil_lp w l) = false -> k_err w = false.
Proof.
  unfold fossil_lp. destruct (newest_below _ _ _); [|auto]. destruct (drop_newer _ _) as [|[ref snap] older]; cbn; [discriminate|auto].
Qed.
Lemma forward_err w l m : k_err (forward p ck w l m) = k_err w.
Proof.
  unfold forward. destruct (handle p (wm_ev m) (x_st (get_lp w l))) as [st' outs].
  destruct (send_all_frame outs w []) as (_ & _ & _ & _ & _ & B6 & _). cbn zeta in B6.
  destruct (send_all w outs []) as [w1 marks]. cbn in *. exact B6.
Qed.

Lemma process_msg_err w : k_err (process_msg p ck w) = false -> k_err w = false.
Proof.
  unfold process_msg. pose proof (extract_err w) as Ex. destruct (wq_extract w) as [[m|] w1]; cbn [snd] in Ex; [|rewrite Ex; auto].
  set (l := N.to_nat (e_dest (wm_ev m))).
  set (w2 := if Nat.eqb (x_epoch (get_lp w1 l)) (k_epoch w1) then w1 else let w' := fossil_lp w1 l in put_lp w' l (fix_bound (get_lp w' l))).
  assert (H2 : k_err w2 = false -> k_err w = false).
  { unfold w2. destruct (Nat.eqb _ _); [rewrite Ex; auto|]. cbn. intros H. apply fossil_err in H. rewrite <- Ex. exact H. }
  destruct (flag_add (k_flags w2) (wm_id m) FLAG_PROC) as [o f].
  destruct (has o FLAG_ANTI).
  - cbn [put_lp set_lps k_err]. intros H. apply H2.
    destruct (N.eqb o (FLAG_ANTI + FLAG_PROC)); [|exact H].
    destruct (anti_index _ _); [apply do_rollback_err in H; exact H|cbn in H; discriminate].
  - rewrite forward_err. intros H. apply H2.
    destruct (match last_proc _ with Some _ => _ | None => false end); [apply do_rollback_err in H; exact H|exact H].
Qed.

(* ---------- the last entry of a well-formed history is a processed message ---------- *)
Lemma hist_ok_last es : forall st pend, hist_ok p st pend es -> es <> [] -> exists m, last es (ESent wm_dummy) = EProc m.
Proof.
  induction es as [|e es IH]; intros st pend H Hne; [congruence|].
  destruct es as [|e2 es2].
  - destruct e as [m|m]; [cbn in H; destruct pend; discriminate|exists m; reflexivity].
  - destruct e as [m|m]; cbn [hist_ok] in H.
    + destruct (IH _ _ H ltac:(discriminate)) as (m' & Hm'). exists m'. exact Hm'.
    + destruct H as [_ H]. destruct (IH _ _ H ltac:(discriminate)) as (m' & Hm'). exists m'. exact Hm'.
Qed.

Lemma last_proc_last hist m : last hist (ESent wm_dummy) = EProc m -> hist <> [] -> last_proc hist = Some m /\ exists a, hist = a ++ [EProc m].
Proof.
  intros H Hne. destruct (exists_last Hne) as (a & x & ->). rewrite last_last in H. subst x.
  split; [unfold last_proc; rewrite rev_app_distr; reflexivity|exists a; reflexivity].
Qed.

Lemma wf_last x : lp_ok p x -> lp_wf p x -> x_hist x = [] \/ exists m a, last_proc (x_hist x) = Some m /\ x_hist x = a ++ [EProc m].
Proof.
  intros (newer & r0 & s0 & El & Hs & Hsn & Hst) [Hh Hb].
  assert (Eb : base x = (r0, s0)) by (unfold base; rewrite El; apply last_last). rewrite Eb in Hh. cbn [fst snd] in Hh.
  destruct (x_hist x) as [|e0 h0] eqn:Eh; [left; reflexivity|right]. rewrite <- Eh in *.
  assert (Hne : x_hist x <> []) by (rewrite Eh; discriminate).
  destruct (skipn r0 (x_hist x)) as [|e es] eqn:Es.
  - assert (Hr0 : r0 <= length (x_hist x)) by (destruct (Hsn r0 s0) as [H _]; [rewrite El; apply in_or_app; right; left; reflexivity|exact H]).
    assert (Hlen : length (skipn r0 (x_hist x)) = 0) by (rewrite Es; reflexivity). rewrite skipn_length in Hlen.
    assert (r0 = length (x_hist x)) by lia.
    destruct (Hb (r0, s0) ltac:(rewrite El; apply in_or_app; right; left; reflexivity)) as [H0|(m & Hm)]; cbn [fst] in *.
    + rewrite H0 in H. destruct (x_hist x); [congruence|discriminate].
    + assert (Hl : last (x_hist x) (ESent wm_dummy) = EProc m).
      { destruct (exists_last Hne) as (a & y & Ea). rewrite Ea in *. rewrite last_last. rewrite app_length in H. cbn in H.
        subst r0. replace (pred (length a + 1)) with (length a + 0) in Hm by lia. rewrite nth_error_app2 in Hm by lia.
        replace (length a + 0 - length a) with 0 in Hm by lia. cbn in Hm. injection Hm as ->. reflexivity. }
      destruct (last_proc_last _ _ Hl Hne) as [H1 (a & H2)]. exists m, a. split; assumption.
  - rewrite <- Es in Hh. destruct (hist_ok_last _ _ _ Hh ltac:(rewrite Es; discriminate)) as (m & Hm).
    assert (Hl : last (x_hist x) (ESent wm_dummy) = EProc m).
    { rewrite <- (firstn_skipn r0 (x_hist x)). rewrite Es in *. clear - Hm. generalize (firstn r0 (x_hist x)). intros a.
      induction a as [|y a IH]; [exact Hm|]. cbn [app]. destruct (a ++ e :: es) eqn:E; [destruct a; discriminate|]. exact IH. }
    destruct (last_proc_last _ _ Hl Hne) as [H1 (a & H2)]. exists m, a. split; assumption.
Qed.


(* ---------- frame lemmas for LP updates ---------- *)
Lemma put_lp_good w l x : good w -> (l < length (k_lps w) -> lp_time x) -> good (put_lp w l x).
Proof.
  intros [S2 S3 S4] Hx. constructor; cbn [put_lp set_lps k_gvt k_heap k_lps]; [exact S2|exact S3|apply set_nth_forall; assumption].
Qed.
Lemma get_time w l : good w -> l < length (k_lps w) -> lp_time (get_lp w l).
Proof. intros [_ _ S4] Hl. rewrite Forall_forall in S4. apply S4. unfold get_lp. apply nth_In. exact Hl. Qed.
Lemma set_flags_good w f : good w -> good (set_flags w f).
Proof. intros [S2 S3 S4]. constructor; assumption. Qed.

Lemma sorted_snoc_max (a : list N) x t : StronglySorted N.le (a ++ [x]) -> In t (a ++ [x]) -> (t <= x)%N.
Proof. intros Hs Ht. apply in_app_or in Ht. destruct Ht as [Ht|[<-|[]]]; [apply (sorted_last_max a x Hs t Ht)|apply N.le_refl]. Qed.

(* ---------- process_msg ---------- *)
Lemma process_msg_good w : all_ok2 p w -> good w -> k_err (process_msg p ck w) = false -> good (process_msg p ck w).
Proof.
  intros Hok Hg Herr.
  pose proof (process_msg_ok2 p ck w Hok) as Hok'.
  unfold process_msg in *.
  pose proof (extract_spec w Hg) as Hex. pose proof (extract_lps w) as Elps.
  destruct (wq_extract w) as [[m|] w1]; cbn [snd] in Elps; [|exact (proj1 Hex)].
  destruct Hex as (G1 & Hgm & Eg & Ef & Eh & Ee & Elg & Eerr & _ & _).
  assert (Ok1 : all_ok2 p w1) by (unfold all_ok2; rewrite Elps; exact Hok).
  set (l := N.to_nat (e_dest (wm_ev m))) in *.
  set (w2 := if Nat.eqb (x_epoch (get_lp w1 l)) (k_epoch w1) then w1 else let w' := fossil_lp w1 l in put_lp w' l (fix_bound (get_lp w' l))) in *.
  assert (Ok2 : all_ok2 p w2).
  { unfold w2. destruct (Nat.eqb _ _); [exact Ok1|]. cbn zeta. apply put_ok2; [apply fossil_ok2; exact Ok1|].
    intros Hl. apply fix_bound_ok2. apply get_ok2; [apply fossil_ok2; exact Ok1|exact Hl]. }
  assert (Eg2 : k_gvt w2 = k_gvt w1).
  { unfold w2. destruct (Nat.eqb _ _); [reflexivity|]. cbn. unfold fossil_lp. destruct (newest_below _ _ _); [|reflexivity].
    destruct (drop_newer _ _) as [|[ref snap] older]; reflexivity. }
  assert (G2 : k_err w2 = false -> good w2).
  { unfold w2. destruct (Nat.eqb _ _); [intros _; exact G1|]. cbn zeta. cbn [put_lp set_lps k_err]. intros He.
    destruct (fossil_good w1 l G1) as [[Gf _]|Et]; [|rewrite Et in He; discriminate].
    apply put_lp_good; [exact Gf|]. intros Hl. apply fix_bound_time. apply get_time; assumption. }
  destruct (flag_add (k_flags w2) (wm_id m) FLAG_PROC) as [o f].
  set (w3 := set_flags w2 f) in *.
  assert (Ok3 : all_ok2 p w3) by exact Ok2.
  destruct (has o FLAG_ANTI).
  - (* a cancelled message *)
    cbn [put_lp set_lps k_err] in Herr.
    set (w4 := if N.eqb o (FLAG_ANTI + FLAG_PROC) then match anti_index m (x_hist (get_lp w3 l)) with Some past_i => do_rollback p w3 l past_i | None => set_err w3 end else w3) in *.
    assert (G4 : good w4).
    { unfold w4 in *. destruct (N.eqb o (FLAG_ANTI + FLAG_PROC)); [|apply set_flags_good; apply G2; exact Herr].
      destruct (anti_index m (x_hist (get_lp w3 l))) as [past|] eqn:Ea; [|cbn in Herr; discriminate].
      pose proof (do_rollback_err w3 l past Herr) as He3.
      assert (G3 : good w3) by (apply set_flags_good; apply G2; exact He3).
      destruct (anti_index_spec m _ _ Ea) as (j & Hkj & Hnj & Hsent).
      assert (Hl : l < length (k_lps w3)).
      { destruct (Nat.lt_ge_cases l (length (k_lps w3))) as [H|H]; [exact H|]. unfold get_lp in Hnj. rewrite (nth_overflow _ _ H) in Hnj. destruct j; discriminate. }
      destruct (do_rollback_good w3 l past (tm m) Ok3 G3 (proj1 (anti_index_bnd m _ _ Ea))) as (Gr & _); [| |exact Herr|exact Gr].
      + cbn [k_gvt w3 set_flags]. rewrite Eg2, Eg. exact Hgm.
      + apply (anti_undone_ge _ past j m (proj1 (get_time w3 l G3 Hl)) Hkj Hnj Hsent). }
    apply put_lp_good; [exact G4|]. intros Hl. apply fix_bound_time. apply get_time; assumption.
  - (* an ordinary message: possibly a straggler *)
    rewrite forward_err in Herr.
    set (x := get_lp w3 l) in *.
    set (strag := match last_proc (x_hist x) with Some lastm => (Z.of_N (e_t (wm_ev m)) <=? x_bound x)%Z && wbefore (k_flags w3) m lastm | None => false end) in *.
    set (w4 := if strag then do_rollback p w3 l (straggler_index (k_flags w3) m (x_hist x)) else w3) in *.
    assert (He3 : k_err w3 = false) by (unfold w4 in Herr; destruct strag; [apply (do_rollback_err _ _ _ Herr)|exact Herr]).
    assert (G3 : good w3) by (apply set_flags_good; apply G2; exact He3).
    assert (Hgm3 : ge (k_gvt w3) m) by (cbn [k_gvt w3 set_flags]; rewrite Eg2, Eg; exact Hgm).
    assert (G4 : good w4 /\ k_gvt w4 = k_gvt w3 /\
                 (l < length (k_lps w4) -> forall t, In t (ptimes (x_hist (get_lp w4 l))) -> (t <= tm m)%N)).
    { unfold w4 in *. destruct strag eqn:Es.
      - (* rollback *)
        unfold strag in Es. destruct (last_proc (x_hist x)) as [lastm|] eqn:El; [|discriminate].
        apply andb_true_iff in Es. destruct Es as [_ Ew].
        destruct (straggler_index_spec (k_flags w3) m (x_hist x) lastm El Ew) as [Habove Hstop]. cbn zeta in Habove, Hstop.
        set (k := straggler_index (k_flags w3) m (x_hist x)) in *.
        destruct (do_rollback_good w3 l k (tm m) Ok3 G3 (proj1 (straggler_index_bnd _ _ _)) Hgm3) as (Gr & _ & Egr & _ & _ & _ & Elen & Ehist & _); [|exact Herr|].
        + intros m' Hm'. apply (wbefore_le (k_flags w3)). apply Habove. exact Hm'.
        + split; [exact Gr|]. split; [exact Egr|]. intros Hl t Ht. rewrite Ehist in Ht. fold x in Ht.
          rewrite Elen in Hl.
          destruct Hstop as [Hk0|(e & Hne & Hwe)]; [rewrite Hk0 in Ht; destruct Ht|].
          assert (Hkpos : 0 < k) by (destruct k; [|lia]; cbn in Ht; destruct Ht).
          pose proof (ptimes_below (x_hist x) k e (proj1 (get_time w3 l G3 Hl)) Hne Hkpos t Ht) as Hte.
          destruct (N.le_gt_cases (tm e) (tm m)) as [Hle|Hgt]; [lia|]. rewrite (wbefore_lt (k_flags w3) m e Hgt) in Hwe. discriminate.
      - (* no rollback *)
        split; [exact G3|]. split; [reflexivity|]. intros Hl t Ht. fold x in Ht.
        destruct (get_time w3 l G3 Hl) as [Hsorted Hbound]. fold x in Hsorted, Hbound.
        destruct (get_ok2 p w3 l Ok3 Hl) as [Hlo Hlw]. fold x in Hlo, Hlw.
        destruct (wf_last x Hlo Hlw) as [Hnil|(lastm & a & El & Ea)]; [rewrite Hnil in Ht; destruct Ht|].
        unfold strag in Es. rewrite El in Es. apply andb_false_iff in Es.
        rewrite Ea, ptimes_app in Hsorted, Ht. cbn in Hsorted, Ht.
        pose proof (sorted_snoc_max _ _ t Hsorted Ht) as Htl.
        destruct Es as [Eb|Ew].
        + apply Z.leb_gt in Eb. specialize (Hbound t ltac:(rewrite Ea, ptimes_app; cbn; exact Ht)). unfold tm. lia.
        + destruct (N.le_gt_cases (tm lastm) (tm m)) as [Hle|Hgt]; [lia|]. rewrite (wbefore_lt (k_flags w3) m lastm Hgt) in Ew. discriminate. }
    destruct G4 as (G4 & Eg4 & Hle4).
    apply forward_good; [exact G4|unfold ge in *; rewrite Eg4; exact Hgm3|exact Hle4].
Qed.


(* ---------- the network operations of the script ---------- *)
Lemma good_frame w w' : good w -> (forall x, In x (pend w') -> In x (pend w)) -> k_heap w' = k_heap w -> k_lps w' = k_lps w ->
  k_gvt w' = k_gvt w -> good w'.
Proof.
  intros [S2 S3 S4] Hin Eh El Eg. constructor; [|rewrite Eh; exact S3|rewrite El; exact S4].
  intros x Hx. unfold ge. rewrite Eg. apply S2. apply Hin. exact Hx.
Qed.

Lemma hold_good k : forall w, good w -> good (hold k w) /\ k_err (hold k w) = k_err w /\ k_lps (hold k w) = k_lps w.
Proof.
  induction k as [|k IH]; intros w H; cbn [hold]; [split; [exact H|split; reflexivity]|].
  pose proof (extract_spec w H) as Hex. destruct (wq_extract w) as [[m|] w1].
  - destruct Hex as (G1 & Hgm & Eg & _ & _ & _ & _ & Ee & El & _).
    assert (G2 : good (set_held w1 (k_held w1 ++ [Some m]))).
    { destruct G1 as [S2 S3 S4]. constructor; [|exact S3|exact S4]. intros x Hx. unfold pend in Hx. cbn [k_shared k_heap k_held set_held] in Hx.
      unfold heldl in Hx. rewrite flat_map_app in Hx. cbn in Hx. rewrite !in_app_iff in Hx.
      destruct Hx as [Hx|[Hx|[Hx|[<-|[]]]]]; [apply S2; unfold pend; rewrite !in_app_iff; auto|apply S2; unfold pend; rewrite !in_app_iff; auto|
        apply S2; unfold pend; rewrite !in_app_iff; auto|unfold ge in *; cbn [k_gvt set_held]; rewrite Eg; exact Hgm]. }
    destruct (IH _ G2) as (G3 & E3 & L3). split; [exact G3|]. split; [rewrite E3; exact Ee|rewrite L3; exact El].
  - destruct Hex as (G1 & Ee & El). split; [exact G1|split; assumption].
Qed.

Lemma heldl_set_none hs j x : In x (heldl (set_nth hs j None)) -> In x (heldl hs).
Proof.
  revert j. induction hs as [|h hs IH]; intros [|j] H; cbn in *; try contradiction.
  - apply in_or_app. right. exact H.
  - apply in_app_or in H. apply in_or_app. destruct H as [H|H]; [left; exact H|right; apply (IH j); exact H].
Qed.
Lemma heldl_nth hs j m : nth j hs None = Some m -> In m (heldl hs).
Proof.
  revert j. induction hs as [|h hs IH]; intros [|j] H; cbn in *; try discriminate.
  - subst h. left. reflexivity.
  - apply in_or_app. right. apply (IH j). exact H.
Qed.

Lemma unhold_good i w : good w -> good (unhold i w).
Proof.
  intros H. unfold unhold. destruct (k_held w) as [|h hs] eqn:E; [exact H|]. rewrite <- E.
  destruct (nth (i mod length (k_held w)) (k_held w) None) as [m|] eqn:En; [|exact H].
  apply (good_frame w); [exact H| |reflexivity|reflexivity|reflexivity].
  intros x. unfold pend. cbn [wq_insert set_held k_shared k_heap k_held]. rewrite !in_app_iff. cbn [In].
  intros [[<-|Hx]|[Hx|Hx]]; [right; right; apply (heldl_nth _ _ _ En)|auto|auto|right; right; apply (heldl_set_none _ _ _ Hx)].
Qed.

Lemma unhold_all_good w : good w -> good (unhold_all w) /\ k_err (unhold_all w) = k_err w.
Proof.
  intros H. unfold unhold_all.
  assert (G : forall hs w0, (forall x, In x (pend (fold_left (fun w' h => match h with Some m => wq_insert w' m | None => w' end) hs w0)) ->
                               In x (k_shared w0 ++ k_heap w0 ++ heldl (k_held w0)) \/ In x (heldl hs)) /\
              k_heap (fold_left (fun w' h => match h with Some m => wq_insert w' m | None => w' end) hs w0) = k_heap w0 /\
              k_lps (fold_left (fun w' h => match h with Some m => wq_insert w' m | None => w' end) hs w0) = k_lps w0 /\
              k_gvt (fold_left (fun w' h => match h with Some m => wq_insert w' m | None => w' end) hs w0) = k_gvt w0 /\
              k_err (fold_left (fun w' h => match h with Some m => wq_insert w' m | None => w' end) hs w0) = k_err w0 /\
              k_held (fold_left (fun w' h => match h with Some m => wq_insert w' m | None => w' end) hs w0) = k_held w0).
  { induction hs as [|h hs IH]; intros w0; cbn [fold_left heldl flat_map].
    - repeat split; try reflexivity. intros x Hx. left. exact Hx.
    - destruct (IH (match h with Some m => wq_insert w0 m | None => w0 end)) as (I1 & I2 & I3 & I4 & I5 & I6).
      rewrite I2, I3, I4, I5, I6. destruct h as [m|]; cbn [wq_insert k_heap k_lps k_gvt k_err k_held k_shared] in *; repeat split; try reflexivity.
      + intros x Hx. destruct (I1 x Hx) as [Hy|Hy]; [|right; apply in_or_app; right; exact Hy].
        cbn [app In] in Hy. destruct Hy as [<-|Hy]; [right; left; reflexivity|left; exact Hy].
      + intros x Hx. destruct (I1 x Hx) as [Hy|Hy]; [left; exact Hy|right; exact Hy]. }
  destruct (G (k_held w) w) as (I1 & I2 & I3 & I4 & I5 & I6).
  split; [|cbn [set_held k_err]; exact I5].
  apply (good_frame w); [exact H| |cbn [set_held k_heap]; exact I2|cbn [set_held k_lps]; exact I3|cbn [set_held k_gvt]; exact I4].
  intros x. unfold pend at 1. cbn [set_held k_shared k_heap k_held heldl flat_map]. rewrite app_nil_r. intros Hx.
  assert (Hx' : In x (pend (fold_left (fun w' h => match h with Some m => wq_insert w' m | None => w' end) (k_held w) w))).
  { unfold pend. rewrite !in_app_iff in *. tauto. }
  destruct (I1 x Hx') as [Hy|Hy]; [exact Hy|unfold pend; rewrite !in_app_iff; auto].
Qed.

Lemma min_held_spec hs : forall m0 t, min_held hs m0 = Some t ->
  (forall t0, m0 = Some t0 -> (t <= t0)%N) /\ forall x, In x (heldl hs) -> (t <= tm x)%N.
Proof.
  induction hs as [|h hs IH]; intros m0 t H; cbn [min_held fold_left] in H.
  - subst m0. split; [intros t0 E; injection E as <-; apply N.le_refl|intros x []].
  - fold (min_held hs) in H. destruct h as [m|].
    + destruct m0 as [t0|].
      * destruct (IH _ _ H) as [I1 I2]. specialize (I1 _ eq_refl). split.
        -- intros t1 E. injection E as <-. unfold tm in *. lia.
        -- intros x [<-|Hx]; [unfold tm in *; lia|apply I2; exact Hx].
      * destruct (IH _ _ H) as [I1 I2]. specialize (I1 _ eq_refl). split; [intros t1 E; discriminate|].
        intros x [<-|Hx]; [exact I1|apply I2; exact Hx].
    + destruct (IH _ _ H) as [I1 I2]. split; [exact I1|exact I2].
Qed.

Lemma announce_good d w : good w -> good (announce d w) /\ k_err (announce d w) = k_err w.
Proof.
  intros H. unfold announce, wq_peek.
  pose proof (transfer_good w H) as [S2 S3 S4].
  set (w1 := wq_transfer w) in *.
  destruct (min_held (k_held w1) (match k_heap w1 with [] => None | m :: _ => Some (e_t (wm_ev m)) end)) as [t|] eqn:Em;
    [|split; [constructor; assumption|reflexivity]].
  destruct (_ || _); [split; [constructor; assumption|reflexivity]|].
  split; [|reflexivity]. constructor; cbn [k_gvt k_heap k_lps]; [|exact S3|exact S4].
  destruct (min_held_spec _ _ _ Em) as [M1 M2].
  intros x Hx. unfold pend in Hx. cbn [k_shared k_heap k_held] in Hx. change (k_shared w1) with (@nil wmsg) in Hx. cbn [app] in Hx.
  apply in_app_or in Hx. unfold ge. assert (Ht : (t <= tm x)%N); [|lia].
  destruct Hx as [Hx|Hx]; [|apply M2; exact Hx].
  destruct (k_heap w1) as [|r rest] eqn:Eh; [destruct Hx|]. specialize (M1 _ eq_refl).
  apply In_nth with (d := wm_dummy) in Hx. destruct Hx as (k & Hk & Hn).
  pose proof (theap_root_min wmsg wm_dummy tm (r :: rest) S3 k Hk) as Hr. rewrite Hn in Hr. cbn [nth] in Hr. unfold tm in *. lia.
Qed.


(* ---------- every script ---------- *)
Lemma process_msg_safe w : safe w -> safe (process_msg p ck w).
Proof.
  intros [Hok Hc]. split; [apply process_msg_ok2; exact Hok|]. intros He.
  apply process_msg_good; [exact Hok|apply Hc; apply process_msg_err; exact He|exact He].
Qed.

Lemma iter_safe n : forall w, safe w -> safe (iter n (process_msg p ck) w).
Proof. induction n as [|n IH]; intros w H; cbn; [exact H|]. apply IH. apply process_msg_safe. exact H. Qed.

Lemma run_out_safe fuel : forall w, safe w -> safe (fst (run_out p ck fuel w)).
Proof.
  induction fuel as [|f IH]; intros w H; cbn [run_out]; [exact H|].
  assert (H1 : safe (wq_transfer w)).
  { destruct H as [Hok Hc]. split; [exact Hok|]. intros He. apply transfer_good. apply Hc. exact He. }
  unfold wq_peek. destruct (k_heap (wq_transfer w)); [exact H1|]. apply IH. apply process_msg_safe. exact H1.
Qed.

Lemma unhold_err i w : k_err (unhold i w) = k_err w.
Proof. unfold unhold. destruct (k_held w); [reflexivity|]. destruct (nth _ _ None); reflexivity. Qed.

Lemma wstep_safe w o : safe w -> safe (wstep p ck w o).
Proof.
  intros H. destruct o as [n|k|i| |d|fuel]; cbn [wstep].
  - apply iter_safe. exact H.
  - destruct H as [Hok Hc]. split; [apply hold_ok2; exact Hok|]. intros He.
    assert (Hs : k_err w = false -> good (hold k w) /\ k_err (hold k w) = k_err w) by (intros E; destruct (hold_good k w (Hc E)) as (G & E' & _); split; assumption).
    destruct (k_err w) eqn:Ew.
    + (* the flag was already set: it stays set (hold does not touch it) *)
      exfalso. clear Hs Hc. revert w Hok Ew He. induction k as [|k IH]; intros w Hok Ew He; cbn [hold] in He; [congruence|].
      pose proof (extract_err w) as Ex. pose proof (extract_lps w) as El. destruct (wq_extract w) as [[m|] w1]; cbn [snd] in *; [|congruence].
      apply (IH (set_held w1 (k_held w1 ++ [Some m]))); [unfold all_ok2; cbn; rewrite El; exact Hok|cbn; rewrite Ex; exact Ew|exact He].
    + apply (Hs eq_refl).
  - destruct H as [Hok Hc]. split; [apply (wstep_ok2 p ck w (OpU i) Hok)|]. rewrite unhold_err. intros He. apply unhold_good. apply Hc. exact He.
  - destruct H as [Hok Hc]. split; [apply (wstep_ok2 p ck w OpA Hok)|]. intros He.
    destruct (k_err w) eqn:Ew.
    + exfalso. revert He. unfold unhold_all. cbn [set_held k_err].
      assert (G : forall hs w0, k_err (fold_left (fun w' h => match h with Some m => wq_insert w' m | None => w' end) hs w0) = k_err w0).
      { induction hs as [|h hs IH]; intros w0; cbn; [reflexivity|]. rewrite IH. destruct h; reflexivity. }
      rewrite G, Ew. discriminate.
    + apply (proj1 (unhold_all_good w (Hc eq_refl))).
  - destruct H as [Hok Hc]. split; [apply (wstep_ok2 p ck w (OpG d) Hok)|]. intros He.
    destruct (k_err w) eqn:Ew.
    + exfalso. revert He. unfold announce, wq_peek. destruct (min_held _ _); [destruct (_ || _)|]; cbn; rewrite Ew; discriminate.
    + apply (proj1 (announce_good d w (Hc eq_refl))).
  - apply run_out_safe. destruct H as [Hok Hc]. split; [unfold all_ok2; rewrite unhold_all_lps; exact Hok|]. intros He.
    destruct (k_err w) eqn:Ew.
    + exfalso. revert He. unfold unhold_all. cbn [set_held k_err].
      assert (G : forall hs w0, k_err (fold_left (fun w' h => match h with Some m => wq_insert w' m | None => w' end) hs w0) = k_err w0).
      { induction hs as [|h hs IH]; intros w0; cbn; [reflexivity|]. rewrite IH. destruct h; reflexivity. }
      rewrite G, Ew. discriminate.
    + apply (proj1 (unhold_all_good w (Hc eq_refl))).
Qed.

Lemma init_lp_good w l : k_gvt w = 0%Z -> k_heap w = [] -> Forall lp_time (k_lps w) ->
  k_gvt (init_lp p w l) = 0%Z /\ k_heap (init_lp p w l) = [] /\ Forall lp_time (k_lps (init_lp p w l)).
Proof.
  intros Eg Eh Ht. unfold init_lp. destruct (lp_init p (N.of_nat l)) as [st evs].
  match goal with |- context [send_all ?w0 evs []] => set (w0' := w0) end.
  destruct (send_all_frame evs w0' []) as (B1 & B2 & _). cbn zeta in *.
  pose proof (send_all_lps evs w0' []) as E1. pose proof (send_all_marks evs w0' [] (Forall_nil _)) as Hm.
  destruct (send_all w0' evs []) as [w1 marks]. cbn [fst snd] in *.
  cbn [set_lps k_gvt k_heap k_lps]. rewrite B1, B2. cbn [w0' k_gvt k_heap]. split; [exact Eg|]. split; [exact Eh|].
  rewrite E1. cbn [w0' k_lps]. apply Forall_app. split; [exact Ht|]. constructor; [|constructor].
  split; cbn [x_hist x_bound]; rewrite ptimes_app, (ptimes_sent _ Hm); cbn; [constructor; [constructor|constructor]|].
  intros t [<-|[]]. unfold tm. cbn. lia.
Qed.

Lemma w_init_safe : safe (w_init p).
Proof.
  split; [apply w_init_ok2|]. intros _.
  assert (H : k_gvt (w_init p) = 0%Z /\ k_heap (w_init p) = [] /\ Forall lp_time (k_lps (w_init p))).
  { unfold w_init. generalize (seq 0 (N.to_nat (p_lps p))). intros ls.
    assert (H0 : k_gvt (mkWk (PositiveMap.empty N) [] [] [] [] 1%positive 0 0 0 false) = 0%Z /\
                 k_heap (mkWk (PositiveMap.empty N) [] [] [] [] 1%positive 0 0 0 false) = [] /\
                 Forall lp_time (k_lps (mkWk (PositiveMap.empty N) [] [] [] [] 1%positive 0 0 0 false))) by (cbn; repeat split; constructor).
    revert H0. generalize (mkWk (PositiveMap.empty N) [] [] [] [] 1%positive 0 0 0 false).
    induction ls as [|l ls IH]; intros w (A & B & C); cbn [fold_left]; [repeat split; assumption|]. apply IH. apply init_lp_good; assumption. }
  destruct H as (Eg & Eh & Ht). constructor; [|rewrite Eh; intros k Hk; cbn in Hk; lia|exact Ht].
  intros m _. unfold ge. rewrite Eg. lia.
Qed.

Theorem worker_safe (ops : list wop) : safe (fold_left (wstep p ck) ops (w_init p)).
Proof.
  generalize w_init_safe. generalize (w_init p). induction ops as [|o ops IH]; intros w H; cbn; [exact H|].
  apply IH. apply wstep_safe. exact H.
Qed.

End Safety.

(* ---------- the interpreter application never schedules into the past: the hypothesis is discharged for every program ---------- *)
Lemma make_outs_time p me now a os : forall j e, In e (make_outs p me now a j os) -> (now <= e_t e)%N.
Proof.
  induction os as [|o r IH]; intros j e H; cbn [make_outs] in H; [destruct H|].
  destruct H as [<-|H]; [cbn; lia|apply (IH _ _ H)].
Qed.

Lemma app_handle_time p ev st e : In e (snd (handle p ev st)) -> (e_t ev <= e_t e)%N.
Proof.
  unfold handle. destruct (can_end p (e_dest ev) st); [intros []|].
  destruct (fold_left _ (r_draws _) _) as [a3 g]. destruct (fold_left _ (r_mem _) _) as [a4 sl]. cbn [snd].
  apply make_outs_time.
Qed.

(* For every program, checkpoint interval and script: in every state the worker reaches (as long as the error flag, which marks
   an execution where the C code would index out of bounds, is not raised) every pending message is at or above the announced GVT,
   the heap is a timestamp heap, and every LP's processed messages are in timestamp order and not above its bound. *)
Theorem worker_safe_app (p : prog) (ck : nat) (ops : list wop) : safe p (fold_left (wstep p ck) ops (w_init p)).
Proof. apply worker_safe. intros ev st e. apply app_handle_time. Qed.
