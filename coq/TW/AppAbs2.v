(* Consequences of the instantiated capstone used by C03 and C09. *)
From Coq Require Import NArith ZArith List Bool Lia.
From RS Require Import Rng.RngDefs Rng.RngProofs TW.App TW.AppAbs.
From RS.Abs Require Import Peel Abs Bridge AbsM AbsM2 BridgeM ReachM.
Import ListNotations.

(* bounds: "timestamp strictly below g" *)
Definition below_ts (g : N) (c : cont) : bool := (c_t c <? g)%N.

Lemma below_ts_down g a b : ~ Abs.tlt cont tltb b a -> below_ts g b = true -> below_ts g a = true.
Proof.
  unfold Abs.tlt, tltb, below_ts. intros H Hb. apply N.ltb_lt in Hb. apply N.ltb_lt.
  destruct (N.ltb_spec (c_t b) (c_t a)) as [Hlt|Hge]; [exfalso; apply H; reflexivity|lia].
Qed.

Section Prog.
Variable p : prog.
Hypothesis Hvalid : prog_valid p = true.
Notation reachp := (ReachM.reach cont cltb tltb lpstate (nlps p) (s0 p) (ahandle p) (ainit p) (length (init_events p (nlps p) 0))).

(* C03: for a GVT value g valid in a reachable state, the part of an LP's history below g
   (i) is a prefix of the current history, and (ii) is exactly the LP's sequential dispatch sequence below g *)
Theorem committed_is_sequential_prefix g a :
  reachp a -> BridgeM.gvt_ok cont (below_ts g) a ->
  forall tr, Peel.seqrun cont (Abs.clt cont cltb) lpstate (Bridge.handle_g cont lpstate (ahandle p) (below_ts g)) (s0 p)
               (Bridge.Pg cont (ainit p) (below_ts g)) tr ->
  forall l, (l < nlps p)%nat ->
    Peel.proj cont l tr = BridgeM.Hg cont (below_ts g) a l /\
    exists rest, map (Abs.con cont) (AbsM.hist cont a l) = BridgeM.Hg cont (below_ts g) a l ++ rest.
Proof.
  intros R G tr Hrun l Hl. split.
  - eapply (app_time_warp_is_sequential p Hvalid (below_ts g) (below_ts_down g)); eassumption.
  - destruct (ReachM.reach_inv cont cltb clt_trans clt_total tltb tlt_clt tlt_negtrans lpstate (nlps p) (s0 p) (ahandle p)
               (ainit p) (ainit_nodup p) (length (init_events p (nlps p) 0)) (ainit_bound p) a R) as (_ & _ & J).
    destruct (Bridge.filter_below_prefix cont tltb (below_ts g) (below_ts_down g) (AbsM.hist cont a l)
                (AbsM2.j_ts _ _ _ _ _ _ _ a J l)) as (pre & r & E & Ef & _).
    exists (map (Abs.con cont) r). unfold BridgeM.Hg. rewrite Ef. rewrite E at 1. apply map_app.
Qed.

(* monotonicity in the bound: what is committed at g1 stays a prefix of what is committed at a later g2 >= g1 *)
Lemma filter_below_mono g1 g2 (h : list (Abs.entry cont)) : (g1 <= g2)%N ->
  filter (Bridge.belowe cont (below_ts g1)) (filter (Bridge.belowe cont (below_ts g2)) h) = filter (Bridge.belowe cont (below_ts g1)) h.
Proof.
  intros Hg. induction h as [|e h IH]; [reflexivity|]. cbn [filter].
  destruct (Bridge.belowe cont (below_ts g2) e) eqn:E2.
  - cbn [filter]. rewrite IH. reflexivity.
  - assert (E1 : Bridge.belowe cont (below_ts g1) e = false).
    { unfold Bridge.belowe, below_ts in *. apply N.ltb_ge in E2. apply N.ltb_ge. lia. }
    rewrite E1. exact IH.
Qed.
End Prog.

(* C09: the generator state produced by seeding is well formed for every (lp, seed), so by C18 every draw of
   every run is defined; it depends on (seed, lp) only because [rng_init] has no other argument. *)
Lemma xxtea_pass_u32 key : forall vs z sum p e new0,
  Forall (fun x => (x < W32)%N) (xxtea_pass vs z sum p e key new0).
Proof.
  induction vs as [|x vs IH]; intros z sum p0 e new0; cbn; [constructor|].
  destruct vs as [|y vs'].
  - constructor; [apply N.mod_lt; discriminate|constructor].
  - constructor; [apply N.mod_lt; discriminate|apply IH].
Qed.

Lemma xxtea_rounds_u32 key : forall rounds vs sum, (0 < rounds)%nat ->
  Forall (fun x => (x < W32)%N) (xxtea_rounds rounds vs sum key).
Proof.
  induction rounds as [|k IH]; intros vs sum H; [lia|]. cbn [xxtea_rounds].
  destruct k as [|k'].
  - cbn [xxtea_rounds]. apply xxtea_pass_u32.
  - apply IH. lia.
Qed.

Lemma join32_lt a b : (a < W32)%N -> (b < W32)%N -> (join32 a b < W64)%N.
Proof.
  intros Ha Hb. unfold join32. rewrite N.shiftl_mul_pow2.
  change W32 with (2 ^ 32)%N in Ha. rewrite (lor_disjoint_add a b 32 Ha).
  change (2 ^ 32)%N with W32 in *. unfold W32, W64 in *. lia.
Qed.

Theorem rng_init_wf lp seed : rng_wf (rng_init lp seed).
Proof.
  unfold rng_init.
  set (v := [lo32 lp; hi32 lp; lo32 seed; hi32 seed; lo32 lp; hi32 lp; lo32 seed; hi32 seed]).
  assert (H : Forall (fun x => (x < W32)%N) (xxtea_encode v seeding_key)).
  { unfold xxtea_encode. apply xxtea_rounds_u32. cbn. lia. }
  destruct (xxtea_encode v seeding_key) as [|a [|b [|c [|d [|e [|f [|g [|h [|i l]]]]]]]]];
    try (unfold rng_wf; cbn; repeat split; reflexivity).
  repeat match goal with H : Forall _ (_ :: _) |- _ => inversion H; clear H; subst end.
  unfold rng_wf. cbn [s0 s1 s2 s3 RngDefs.s0 RngDefs.s1 RngDefs.s2 RngDefs.s3]. repeat split; apply join32_lt; assumption.
Qed.

(* every generator state reachable from seeding by any number of draws is well formed *)
Fixpoint draws (n : nat) (s : rng) : rng := match n with O => s | S k => draws k (snd (random_u64 s)) end.
Theorem reachable_generator_states_wf lp seed n : rng_wf (draws n (rng_init lp seed)).
Proof.
  assert (H : forall k s, rng_wf s -> rng_wf (draws k s)).
  { induction k as [|k IH]; intros s Hs; cbn; [exact Hs|]. apply IH. apply random_u64_wf. exact Hs. }
  apply H, rng_init_wf.
Qed.
