(* The termination accounting of gvt/termination.c driven by the worker model: which termination hooks process.c calls, with
   which arguments, written as operations of TW/Term.v (the model of termination.c) computed from the worker state.
     - process_msg on an ordinary message: [termination_on_lp_rollback(lp, msg->dest_t)] when the message is a straggler (the
       entries undone are those from the straggler index on), then [termination_on_msg_process(lp, msg->dest_t)] with the
       predicate evaluated on the state the handler produced;
     - the cancellation notice of a processed message: [termination_on_lp_rollback(lp, msg->dest_t)];
     - a message cancelled while pending, an empty queue: nothing;
     - a GVT announcement that opens a new epoch: [termination_on_gvt(gvt)].
   Definitions only (executable, extracted); the theorems are in TW/WorkerTermProofs.v. *)
From Coq Require Import List ZArith NArith PArith Bool Arith.
From RS Require Import TW.App TW.Worker TW.Term.
Import ListNotations.

Section WT.
Variable p : prog.
Variable ck : nat.
Variable TMAX : Z.

Definition nprocs (es : list entry) : nat := length (filter is_proc es).
Definition ztm (m : wmsg) : Z := Z.of_N (e_t (wm_ev m)).

(* the hooks of one process_msg call *)
Definition msg_term_ops (w : worker) : list op :=
  match wq_extract w with
  | (None, _) => []
  | (Some m, w1) =>
      let l := N.to_nat (e_dest (wm_ev m)) in
      let w2 := if Nat.eqb (x_epoch (get_lp w1 l)) (k_epoch w1) then w1
                else let w' := fossil_lp w1 l in put_lp w' l (fix_bound (get_lp w' l)) in
      let '(o, f) := flag_add (k_flags w2) (wm_id m) FLAG_PROC in
      let w3 := set_flags w2 f in
      if has o FLAG_ANTI then
        if N.eqb o (FLAG_ANTI + FLAG_PROC) then
          match anti_index m (x_hist (get_lp w3 l)) with
          | Some past_i => [Rb l (ztm m) (nprocs (skipn past_i (x_hist (get_lp w3 l))))]
          | None => []
          end
        else []
      else
        let x := get_lp w3 l in
        let strag := match last_proc (x_hist x) with
                     | Some lastm => Z.leb (Z.of_N (e_t (wm_ev m))) (x_bound x) && wbefore (k_flags w3) m lastm
                     | None => false
                     end in
        let rb := if strag then [Rb l (ztm m) (nprocs (skipn (straggler_index (k_flags w3) m (x_hist x)) (x_hist x)))] else [] in
        rb ++ [Proc l (ztm m) (can_end p (e_dest (wm_ev m)) (x_st (get_lp (process_msg p ck w) l)))]
  end.

(* [tw_ovf]: a message with a timestamp at or above TMAX (the SIMTIME_MAX sentinel) was met: its hooks are not modelled, the termination model is frozen
   and nothing is claimed afterwards (the C runtime never sees such a timestamp: SIMTIME_MAX is the largest finite double) *)
Record tw := mkTw { tw_w : worker; tw_t : tstate; tw_ovf : bool }.
Definition op_time_ok (o : op) : bool :=
  match o with Proc _ t _ => Z.ltb t TMAX | Rb _ t _ => Z.ltb t TMAX | Gvt _ _ => true end.
Definition tprocess (s : tw) : tw :=
  let ops := msg_term_ops (tw_w s) in
  if negb (tw_ovf s) && forallb op_time_ok ops then mkTw (process_msg p ck (tw_w s)) (run TMAX (tw_t s) ops) (tw_ovf s)
  else mkTw (process_msg p ck (tw_w s)) (tw_t s) true.
Fixpoint titer (n : nat) (s : tw) : tw := match n with O => s | S k => titer k (tprocess s) end.
Fixpoint trun_out (fuel : nat) (s : tw) : tw :=
  match fuel with
  | O => s
  | S f => match wq_peek (tw_w s) with
           | (None, w1) => mkTw w1 (tw_t s) (tw_ovf s)
           | (Some _, w1) => trun_out f (tprocess (mkTw w1 (tw_t s) (tw_ovf s)))
           end
  end.
Definition twstep (s : tw) (o : wop) : tw :=
  match o with
  | OpP n => titer n s
  | OpH k => mkTw (hold k (tw_w s)) (tw_t s) (tw_ovf s)
  | OpU i => mkTw (unhold i (tw_w s)) (tw_t s) (tw_ovf s)
  | OpA => mkTw (unhold_all (tw_w s)) (tw_t s) (tw_ovf s)
  | OpG d => let w' := announce d (tw_w s) in
             mkTw w' (if Nat.eqb (k_epoch w') (k_epoch (tw_w s)) then tw_t s else step TMAX (tw_t s) (Gvt (k_gvt w') TMAX)) (tw_ovf s)
  | OpE fuel => trun_out fuel (mkTw (unhold_all (tw_w s)) (tw_t s) (tw_ovf s))
  end.

(* termination_lp_init on every LP, after LP_INIT *)
Definition tw_init : tw :=
  let w := w_init p in
  mkTw w (t_init TMAX (map (fun l => can_end p (N.of_nat l) (x_st (get_lp w l))) (seq 0 (length (k_lps w))))) false.
End WT.

(* what the correspondence compares: lps_to_end, max_t, and every LP's termination time *)
Definition tdigest (s : tstate) : Z * Z * list Z := (to_end s, max_t s, term s).
