(* scratch prototype: the c_a / c_b phase protocol of gvt_thread_phase_run, n threads, all schedules.
   Shows the two guards that the data argument (Gvt.v) assumes:
   - a thread publishes (phase C step) only when every thread has joined the pass,
   - a thread (re)starts with a cleared accumulator only when nobody is between publishing and leaving D. *)
From Coq Require Import List Arith Lia Bool.
Import ListNotations.

Inductive ph := I | A | B | C | D.
Definition ph_eqb (x y : ph) : bool :=
  match x, y with I, I | A, A | B, B | C, C | D, D => true | _, _ => false end.
Lemma ph_eqb_spec x y : reflect (x = y) (ph_eqb x y).
Proof. destruct x, y; simpl; constructor; congruence. Qed.

Record st := { ths : list ph; ca : nat; cb : nat }.
Definition cnt (p : ph) (l : list ph) : nat := length (filter (ph_eqb p) l).

Fixpoint upd (l : list ph) (i : nat) (x : ph) : list ph :=
  match l, i with [], _ => [] | _ :: t, 0 => x :: t | h :: t, S j => h :: upd t j x end.

Inductive step : st -> st -> Prop :=
| start : forall s i, nth_error (ths s) i = Some I -> (cnt I (ths s) = length (ths s) \/ cb s <> 0) ->
    step s {| ths := upd (ths s) i A; ca := ca s; cb := cb s |}
| stepA : forall s i, nth_error (ths s) i = Some A -> ca s = 0 ->
    step s {| ths := upd (ths s) i B; ca := ca s; cb := S (cb s) |}
| stepB : forall s i, nth_error (ths s) i = Some B -> cb s = length (ths s) ->
    step s {| ths := upd (ths s) i C; ca := S (ca s); cb := cb s |}
| stepC : forall s i, nth_error (ths s) i = Some C -> ca s = length (ths s) ->
    step s {| ths := upd (ths s) i D; ca := ca s; cb := cb s - 1 |}
| stepD : forall s i x, nth_error (ths s) i = Some D -> cb s = 0 -> (x = A \/ x = I) ->
    step s {| ths := upd (ths s) i x; ca := ca s - 1; cb := cb s |}.

(* counting under a point update *)
Lemma cnt_upd l i x y p : nth_error l i = Some x ->
  cnt p (upd l i y) + (if ph_eqb p x then 1 else 0) = cnt p l + (if ph_eqb p y then 1 else 0).
Proof.
  unfold cnt. revert i; induction l as [|h t IH]; intros [|i]; simpl; try discriminate.
  - intros [= ->]. destruct (ph_eqb p x), (ph_eqb p y); simpl; lia.
  - intros Hi. specialize (IH _ Hi). destruct (ph_eqb p h); simpl; lia.
Qed.
Lemma upd_length l i x : length (upd l i x) = length l.
Proof. revert i; induction l as [|h t IH]; intros [|i]; simpl; auto. Qed.
Lemma cnt_total l : cnt I l + cnt A l + cnt B l + cnt C l + cnt D l = length l.
Proof. unfold cnt. induction l as [|h t IH]; simpl; auto. destruct h; simpl; lia. Qed.
Lemma cnt_pos l i x : nth_error l i = Some x -> 0 < cnt x l.
Proof. unfold cnt. revert i; induction l as [|h t IH]; intros [|i]; simpl; try discriminate.
  - intros [= ->]. destruct (ph_eqb_spec x x); [simpl; lia|congruence].
  - intros Hi. specialize (IH _ Hi). destruct (ph_eqb x h); simpl; lia. Qed.

Record Inv (s : st) : Prop := {
  i_cb : cb s = cnt B (ths s) + cnt C (ths s);
  i_ca : ca s = cnt C (ths s) + cnt D (ths s);
  i_win : (cnt C (ths s) = 0 /\ cnt D (ths s) = 0) \/                      (* only I, A, B *)
          (cnt I (ths s) = 0 /\ cnt A (ths s) = 0 /\ cnt D (ths s) = 0) \/    (* only B, C *)
          (cnt I (ths s) = 0 /\ cnt A (ths s) = 0 /\ cnt B (ths s) = 0) \/    (* only C, D *)
          (cnt B (ths s) = 0 /\ cnt C (ths s) = 0)                            (* only I, A, D *)
}.

Ltac counts Hi y :=
  pose proof (cnt_upd _ _ _ y I Hi); pose proof (cnt_upd _ _ _ y A Hi); pose proof (cnt_upd _ _ _ y B Hi);
  pose proof (cnt_upd _ _ _ y C Hi); pose proof (cnt_upd _ _ _ y D Hi); pose proof (cnt_pos _ _ _ Hi); simpl in *.

Theorem step_inv s s' : Inv s -> step s s' -> Inv s'.
Proof.
  intros [Hb Ha Hw] S. pose proof (cnt_total (ths s)) as Ht.
  destruct S as [s i Hi Hg | s i Hi Hg | s i Hi Hg | s i Hi Hg | s i x Hi Hg Hx].
  - counts Hi A. constructor; simpl; try lia.
  - counts Hi B. constructor; simpl; try lia.
  - counts Hi C. constructor; simpl; try lia.
  - counts Hi D. constructor; simpl; try lia.
  - destruct Hx as [-> | ->]; [counts Hi A|counts Hi I]; constructor; simpl; try lia.
Qed.

Definition init (n : nat) : st := {| ths := repeat I n; ca := 0; cb := 0 |}.
Lemma cnt_repeat p q n : cnt p (repeat q n) = if ph_eqb p q then n else 0.
Proof. unfold cnt. induction n as [|n IH]; simpl; [destruct (ph_eqb p q); auto|]. destruct (ph_eqb p q); simpl; lia. Qed.
Lemma init_inv n : Inv (init n).
Proof. constructor; simpl; rewrite ?cnt_repeat; simpl; auto. Qed.

(* the two lock-step guards *)
Theorem publish_guard s i : Inv s -> nth_error (ths s) i = Some C -> ca s = length (ths s) ->
  cnt I (ths s) = 0 /\ cnt A (ths s) = 0 /\ cnt B (ths s) = 0.       (* everybody is in C or D: all have joined *)
Proof. intros [Hb Ha Hw] Hi Hg. pose proof (cnt_total (ths s)). lia. Qed.

Theorem start_guard s i : Inv s -> nth_error (ths s) i = Some I ->
  (cnt I (ths s) = length (ths s) \/ cb s <> 0) -> cnt D (ths s) = 0.   (* nobody is between publishing and leaving D *)
Proof. intros [Hb Ha Hw] Hi Hg. pose proof (cnt_total (ths s)). pose proof (cnt_pos _ _ _ Hi). lia. Qed.

(* and leaving D / entering B are similarly exclusive: nobody enters B while someone is still in C or D *)
Theorem enterB_guard s i : Inv s -> nth_error (ths s) i = Some A -> ca s = 0 -> cnt C (ths s) = 0 /\ cnt D (ths s) = 0.
Proof. intros [Hb Ha Hw] Hi Hg. lia. Qed.
