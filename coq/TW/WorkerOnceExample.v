(* Non-vacuity of the exactly-once theorem: a concrete program and script that reach a state in which a message is at the
   same time processed by its destination and pending again as its own cancellation notice (flag word 3), then the state
   after the notice has been consumed (the processed message is annihilated, nothing is left of it). *)
From Coq Require Import List ZArith NArith PArith Bool FMapPositive.
From RS Require Import TW.App TW.Worker TW.WorkerSafety TW.WorkerOnce TW.WorkerOnceProofs TW.WorkerOnceApp.
Import ListNotations.
Local Open Scope N_scope.

(* LP 0 starts with a type-3 event at time 0 and a type-1 event at time 1; type 1 sends a type-2 event to LP 1 one tick later *)
Definition ex_prog : prog :=
  mkProg 2 1 100 7 0 [] [(0, 0, 3, 0); (0, 1, 1, 0)]
         [(1, 0, mkRow [] [] [mkOut 1 1 1 2 0]); (2, 0, mkRow [] [] []); (3, 0, mkRow [] [] [])].

Example ex_types_ok : types_okb ex_prog = true.
Proof. vm_compute. reflexivity. Qed.

(* the network holds the time-0 event back, both LPs run ahead, then it lands: LP 0 rolls back and cancels what it sent *)
Definition ex_script : list wop := [OpH 1; OpP 2; OpU 0; OpP 1].
Definition ex_state : worker := fold_left (wstep ex_prog 1) ex_script (w_init ex_prog).

Example ex_flag3_state :
  existsb (fun m => N.eqb (fl (k_flags ex_state) m) 3 && existsb (fun y => Pos.eqb (wm_id y) (wm_id m)) (allprocs (k_lps ex_state)))
          (pend ex_state) = true.
Proof. vm_compute. reflexivity. Qed.

(* after the notice is consumed the cancelled message is nowhere and the run completes without the error flag *)
Definition ex_final : worker := fold_left (wstep ex_prog 1) (ex_script ++ [OpE 100]) (w_init ex_prog).
Example ex_final_clean : k_err ex_final = false /\ pend ex_final = [] /\ length (allprocs (k_lps ex_final)) = 5%nat.
Proof. vm_compute. repeat split. Qed.
