(* C06: the per-message flag handshake of src/lp/process.c between the sender (cancellation) and the receiver
   (processing, rollback, re-queueing), as a transition system on one local message, with ghost accounting of where
   the message is (copies in the receiver's queue, in the receiver's history, a pending insertion by the sender) and
   whether its buffer has been released.  MSG_FLAG_ANTI = 1, MSG_FLAG_PROCESSED = 2; the word is changed by ADDITION. *)
From Coq Require Import ZArith Bool Lia List.
Import ListNotations.
Local Open Scope Z_scope.

Record fm := mkFm {
  f_word : Z;          (* the flag word *)
  f_q : Z;             (* copies sitting in the receiver's queue *)
  f_hist : bool;       (* in the receiver's history (processed, not undone) *)
  f_pend : bool;       (* the sender saw PROCESSED and has still to insert its copy *)
  f_kill : bool;       (* the receiver extracted the copy of a processed, cancelled message and is annihilating it *)
  f_cancelled : bool;
  f_freed : bool
}.

Definition fm_init : fm := mkFm 0 1 false false false false false.   (* just sent: queued once *)

Inductive fact :=
| Extract        (* receiver: msg_queue_extract + fetch_add(+PROCESSED), dispatch on the previous value *)
| Undo           (* receiver: rollback of this entry: fetch_add(-PROCESSED), re-insert unless ANTI was set *)
| Cancel         (* sender: fetch_add(+ANTI), insert a copy later iff PROCESSED was set *)
| SenderInsert   (* sender: the msg_queue_insert that follows a cancel which saw PROCESSED *)
| Release        (* fossil collection / shutdown: the committed entry is released *)
| FiniQueue.     (* shutdown: msg_queue_fini releases the copy still sitting in the queue *)

(* one step; the second component is the previous flag word returned by the fetch-add (what the code branches on) *)
Definition fstep (m : fm) (a : fact) : option (fm * Z) :=
  if f_freed m then None else
  match a with
  | Extract =>
      if (f_q m <=? 0) || f_kill m then None else
      let prev := f_word m in
      let m1 := mkFm (prev + 2) (f_q m - 1) (f_hist m) (f_pend m) (f_kill m) (f_cancelled m) false in
      if prev =? 0 then Some (mkFm (prev + 2) (f_q m - 1) true (f_pend m) false (f_cancelled m) false, prev)
      else if prev =? 1 then Some (mkFm (prev + 2) (f_q m - 1) (f_hist m) (f_pend m) false (f_cancelled m) true, prev)  (* dropped and released *)
      else if prev =? 3 then Some (mkFm (prev + 2) (f_q m - 1) (f_hist m) (f_pend m) true (f_cancelled m) false, prev)   (* rollback follows *)
      else None
  | Undo =>
      if negb (f_hist m) then None else
      let prev := f_word m in
      if Z.land prev 1 =? 0
      then Some (mkFm (prev - 2) (f_q m + 1) false (f_pend m) (f_kill m) (f_cancelled m) false, prev)          (* re-queued *)
      else Some (mkFm (prev - 2) (f_q m) false (f_pend m) false (f_cancelled m) (f_kill m), prev)               (* not re-queued; released if it is being annihilated *)
  | Cancel =>
      if f_cancelled m then None else
      let prev := f_word m in
      Some (mkFm (prev + 1) (f_q m) (f_hist m) (negb (Z.land prev 2 =? 0)) (f_kill m) true false, prev)
  | SenderInsert =>
      if f_pend m then Some (mkFm (f_word m) (f_q m + 1) (f_hist m) false (f_kill m) (f_cancelled m) false, f_word m) else None
  | Release =>
      if f_hist m && negb (f_cancelled m) && (f_q m =? 0) then Some (mkFm (f_word m) 0 false false false false true, f_word m) else None
  | FiniQueue =>
      if (f_q m =? 1) && negb (f_kill m) && negb (f_pend m) then Some (mkFm (f_word m) 0 false false false (f_cancelled m) true, f_word m) else None
  end.

(* the flag word determines where the message is *)
Definition finv (m : fm) : Prop :=
  f_freed m = true \/
  (f_word m = 0 /\ f_q m = 1 /\ f_hist m = false /\ f_pend m = false /\ f_kill m = false /\ f_cancelled m = false) \/
  (f_word m = 2 /\ f_q m = 0 /\ f_hist m = true /\ f_pend m = false /\ f_kill m = false /\ f_cancelled m = false) \/
  (f_word m = 1 /\ f_hist m = false /\ f_kill m = false /\ f_cancelled m = true /\
     ((f_q m = 1 /\ f_pend m = false) \/ (f_q m = 0 /\ f_pend m = true))) \/
  (f_word m = 3 /\ f_hist m = true /\ f_kill m = false /\ f_cancelled m = true /\
     ((f_q m = 1 /\ f_pend m = false) \/ (f_q m = 0 /\ f_pend m = true))) \/
  (f_word m = 5 /\ f_hist m = true /\ f_kill m = true /\ f_cancelled m = true /\ f_q m = 0 /\ f_pend m = false).

Lemma finv_init : finv fm_init.
Proof. right. left. repeat split. Qed.

Theorem fstep_inv m a m' prev : finv m -> fstep m a = Some (m', prev) -> finv m'.
Proof.
  intros H. unfold fstep. destruct (f_freed m) eqn:Ef; [discriminate|].
  destruct H as [H|H]; [congruence|].
  destruct m as [w q h p k c fr]. cbn in *. subst fr.
  destruct H as [(-> & -> & -> & -> & -> & ->)|[(-> & -> & -> & -> & -> & ->)|[(-> & -> & -> & -> & Hq)|[(-> & -> & -> & -> & Hq)|(-> & -> & -> & -> & -> & ->)]]]];
    destruct a; cbn; intros E;
    repeat match goal with
           | Hq : _ \/ _ |- _ => destruct Hq as [[-> ->]|[-> ->]]; cbn in E
           end; try discriminate; try (injection E as <- <-); unfold finv; cbn; try tauto;
    try (right; tauto).
Qed.

(* every flag word the code can observe is one of 0, 1, 2, 3, 5 *)
Corollary reachable_words m : finv m -> f_freed m = false -> In (f_word m) [0; 1; 2; 3; 5].
Proof.
  intros [H|[H|[H|[H|[H|H]]]]] Hf; try congruence; destruct H as (-> & _); cbn; tauto.
Qed.

Fixpoint frun (m : fm) (l : list fact) : option fm :=
  match l with [] => Some m | a :: r => match fstep m a with Some (m', _) => frun m' r | None => None end end.

Theorem frun_inv l : forall m m', finv m -> frun m l = Some m' -> finv m'.
Proof.
  induction l as [|a r IH]; intros m m' H E; cbn in E; [injection E as <-; exact H|].
  destruct (fstep m a) as [[m1 pv]|] eqn:S; [|discriminate]. apply (IH m1 m'); [eapply fstep_inv; eassumption|exact E].
Qed.

(* exactly-once: the buffer is released at most once (no step is enabled on a released message: no double free, no use
   after free), and a cancelled message that has been released is nowhere: not queued, not in a history, no pending copy *)
Theorem no_step_after_release m a : f_freed m = true -> fstep m a = None.
Proof. intros H. unfold fstep. rewrite H. reflexivity. Qed.

Theorem release_is_final m a m' prev : finv m -> fstep m a = Some (m', prev) -> f_freed m' = true ->
  f_q m' = 0 /\ f_hist m' = false /\ f_pend m' = false.
Proof.
  intros H. unfold fstep. destruct (f_freed m) eqn:Ef; [discriminate|].
  destruct H as [H|H]; [congruence|].
  destruct m as [w q h p k c fr]. cbn in *. subst fr.
  destruct H as [(-> & -> & -> & -> & -> & ->)|[(-> & -> & -> & -> & -> & ->)|[(-> & -> & -> & -> & Hq)|[(-> & -> & -> & -> & Hq)|(-> & -> & -> & -> & -> & ->)]]]];
    destruct a; cbn; intros E;
    repeat match goal with
           | Hq : _ \/ _ |- _ => destruct Hq as [[-> ->]|[-> ->]]; cbn in E
           end; try discriminate; injection E as <- <-; cbn; intros F; try discriminate; repeat split; reflexivity.
Qed.

(* a message whose send stays valid (never cancelled) is never released before it is committed: the only enabled release is Release,
   which requires it to be in the history *)
Theorem valid_message_released_only_when_committed m a m' prev :
  finv m -> f_cancelled m = false -> fstep m a = Some (m', prev) -> f_freed m' = true -> a = Release \/ a = FiniQueue \/ f_cancelled m' = true.
Proof.
  intros H Hc. unfold fstep. destruct (f_freed m) eqn:Ef; [discriminate|].
  destruct H as [H|H]; [congruence|].
  destruct m as [w q h p k c fr]. cbn in *. subst fr c.
  destruct H as [(-> & -> & -> & -> & -> & _)|[(-> & -> & -> & -> & -> & _)|[(_ & _ & _ & Hx & _)|[(_ & _ & _ & Hx & _)|(_ & _ & _ & Hx & _)]]]]; try discriminate;
    destruct a; cbn; intros E; try discriminate; injection E as <- <-; cbn; intros F; try discriminate; auto.
Qed.
