(* C12 — the rollbackable allocator returns valid, disjoint, stable blocks.
   One arena is a complete binary tree carrying the "longest" values (any block exponent B >= 1, any height):
   - malloc: succeeds iff the root value admits the requested class; the result tree is well formed; exactly one range of
     leaves — aligned to the block size, inside the arena, entirely free before — becomes allocated and no other leaf
     changes (so live blocks are never overlapped); a larger request fails and changes nothing;
   - free is the exact inverse of the malloc that produced the block: the previous tree comes back, so whatever fitted
     before that malloc fits again (the space is reusable, buddies coalesce);
   - writing one block leaves every granule outside it unchanged (content stability).
   The multi-arena layer, size arithmetic (max(req,64), class computation, zero / oversize / overflowing calloc
   requests) and realloc's copy-then-free are part of the executable model and tied to multi.c by the
   correspondence run, where the shadow-allocator laws are also evaluated directly on the implementation. *)
From Coq Require Import List Arith NArith.
From RS Require Import Buddy.BuddyTree Buddy.Alloc Buddy.AllocProofs.

Theorem C12_malloc_spec : forall B, 0 < B -> forall h t e, wf B h t -> B <= e -> e <= val t ->
  exists t' o, bm B h t e = Some (t', o) /\ bm_post B h t t' e o.
Proof. exact bm_spec. Qed.

Theorem C12_malloc_fails_cleanly : forall B, 0 < B -> forall h t e, wf B h t -> val t < e -> bm B h t e = None.
Proof. exact bm_fail. Qed.

Theorem C12_free_is_inverse_of_malloc : forall B, 0 < B -> forall h t e t' o,
  wf B h t -> B <= e -> bm B h t e = Some (t', o) -> bfree B h t' o = Some (t, e).
Proof. exact bfree_bm_inverse. Qed.

Theorem C12_write_leaves_other_blocks_untouched : forall cells o len tag k, ~ (o <= k < o + len) ->
  nth k (write_cells cells o len tag) 0%N = nth k cells 0%N.
Proof. exact write_other_blocks_untouched. Qed.

Print Assumptions C12_malloc_spec.
Print Assumptions C12_malloc_fails_cleanly.
Print Assumptions C12_free_is_inverse_of_malloc.
Print Assumptions C12_write_leaves_other_blocks_untouched.
