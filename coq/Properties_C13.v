(* C13 — fossil collection never discards what a legal rollback can need.
   For every allocator state and every target index: fossil collection keeps the newest checkpoint whose reference is
   not after the target and every later one, shifts their references by that checkpoint's reference (so the kept log
   starts at reference 0: the kept history starts exactly at that checkpoint), changes neither the arenas nor the size
   bookkeeping, and afterwards a restore to ANY index finds a checkpoint (the log is never empty and its base is 0).
   That the index handed over by the runtime is the one of the last committed event (timestamps below the GVT only),
   and that the history is truncated by exactly the returned amount, is tied by the correspondence run (direct calls of
   model_allocator_fossil_lp_collect / _checkpoint_restore with the distances GVT - checkpoint - rollback target swept)
   and by the simulation runs with GVT periods down to 0. *)
From Coq Require Import List Arith NArith.
From Coq Require Import ZArith Sorted.
From RS Require Import Buddy.BuddyTree Buddy.Alloc Buddy.AllocProofs Heap.HeapTime TW.App TW.Worker TW.WorkerProofs TW.WorkerSafety TW.WorkerOnceApp.

Theorem C13_fossil_keeps_base : forall s tgt s' base, fossil_collect s tgt = Some (s', base) ->
  exists i g, nth_error (m_logs s) i = Some g /\ base = g_ref g /\ (g_ref g <= tgt)%N /\
    m_logs s' = map (fun x => mkLog (g_ref x - base) (g_size x) (g_arenas x)) (skipn i (m_logs s)) /\
    (exists g0 rest, m_logs s' = g0 :: rest /\ g_ref g0 = 0%N) /\
    m_arenas s' = m_arenas s /\ m_size s' = m_size s.
Proof. exact fossil_keeps_base. Qed.

Theorem C13_restore_after_fossil_finds_a_checkpoint : forall B H AHDR s tgt s' base ref,
  fossil_collect s tgt = Some (s', base) -> exists s'' r, checkpoint_restore B H AHDR s' ref = Some (s'', r).
Proof. exact restore_after_fossil. Qed.

Theorem C13_restore_uses_newest_checkpoint_not_after : forall B H AHDR s ref s' r,
  checkpoint_restore B H AHDR s ref = Some (s', r) ->
  exists i g, nth_error (m_logs s) i = Some g /\ r = g_ref g /\ (g_ref g <= ref)%N /\
    (forall k g', i < k -> nth_error (m_logs s) k = Some g' -> (ref < g_ref g')%N) /\
    m_logs s' = firstn (S i) (m_logs s).
Proof. exact restore_picks_newest. Qed.

(* process.c / fossil.c level, on the executable worker model tied op by op to the code (TW/Worker.v), for EVERY program,
   checkpoint interval and script of deliveries, late hand-backs, cancellations and GVT announcements (GVT = a lower bound of
   everything queued or held, as drv_lp computes it):
     safe p w  :=  all_ok2 p w  /\  (k_err w = false ->
                     (forall m, In m (pend w) -> k_gvt w <= time of m)               -- nothing pending lies below the GVT
                  /\ theap .. (k_heap w)                                             -- the heap is a heap for the timestamp
                  /\ Forall lp_time (k_lps w))                                       -- histories in timestamp order, none above the bound
   (k_err marks an execution in which the C code would index out of bounds; it is never raised in any correspondence run.) *)
Theorem C13_nothing_pending_lies_below_the_gvt : forall (p : prog) (ck : nat) (ops : list wop),
  safe p (fold_left (wstep p ck) ops (w_init p)).
Proof. exact worker_safe_app. Qed.

(* ... and what a fossil collection releases lies strictly below it: in a timestamp-ordered history, with the scan of
   fossil_lp_collect (newest processed message below the GVT) and the checkpoint choice of the allocator, every processed
   message of the released prefix has a timestamp < GVT.  Together: no message that can still arrive -- hence no rollback it
   can cause -- reaches into what was released. *)
Theorem C13_released_entries_lie_below_the_gvt : forall (x : lpx) (gvt : Z) past ref snap older,
  StronglySorted N.le (ptimes (x_hist x)) ->
  newest_below gvt (rev (x_hist x)) (length (x_hist x)) = Some past ->
  StronglySorted decr (x_logs x) -> drop_newer (x_logs x) (past + 1) = (ref, snap) :: older ->
  forall m, In (EProc m) (firstn ref (x_hist x)) -> (Z.of_N (tm m) < gvt)%Z.
Proof. intros x. exact (fossil_releases_below (mkProg 1 1 0 0 0 nil nil nil) 0 (fun ev st e => app_handle_time _ ev st e) x). Qed.

(* ... unconditionally: the error flag is never raised (every rollback, whatever straggler or cancellation causes it, finds a
   checkpoint at or below its target among the ones fossil collection kept, and every fossil collection keeps one), so the
   invariants above hold in EVERY reachable state of every program with types below the reserved ones *)
Theorem C13_every_rollback_finds_a_kept_checkpoint : forall (p : prog) (ck : nat), types_okb p = true -> forall (ops : list wop),
  k_err (fold_left (wstep p ck) ops (w_init p)) = false /\ good (fold_left (wstep p ck) ops (w_init p)).
Proof. intros p ck Hp ops. split; [exact (worker_never_errs p ck Hp ops)|exact (worker_good p ck Hp ops)]. Qed.

Print Assumptions C13_every_rollback_finds_a_kept_checkpoint.
Print Assumptions C13_fossil_keeps_base.
Print Assumptions C13_nothing_pending_lies_below_the_gvt.
Print Assumptions C13_released_entries_lie_below_the_gvt.
Print Assumptions C13_restore_after_fossil_finds_a_checkpoint.
Print Assumptions C13_restore_uses_newest_checkpoint_not_after.
