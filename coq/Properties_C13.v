(* C13 — fossil collection never discards what a legal rollback can need.
   For every allocator state and every target index: fossil collection keeps the newest checkpoint whose reference is
   not after the target and every later one, shifts their references by that checkpoint's reference (so the kept log
   starts at reference 0: the kept history starts exactly at that checkpoint), changes neither the arenas nor the size
   bookkeeping, and afterwards a restore to ANY index finds a checkpoint (the log is never empty and its base is 0).
   That the index handed over by the runtime is the one of the last committed event (timestamps below the GVT only),
   and that the history is truncated by exactly the returned amount, is tied by the correspondence run (direct calls of
   model_allocator_fossil_lp_collect / _checkpoint_restore with the distances GVT - checkpoint - rollback target swept)
   and by the simulation runs with GVT periods down to 0. *)
From Coq Require Import List Arith NArith.
From RS Require Import Buddy.BuddyTree Buddy.Alloc Buddy.AllocProofs.

Theorem C13_fossil_keeps_base : forall s tgt s' base, fossil_collect s tgt = Some (s', base) ->
  exists i g, nth_error (m_logs s) i = Some g /\ base = g_ref g /\ (g_ref g <= tgt)%N /\
    m_logs s' = map (fun x => mkLog (g_ref x - base) (g_size x) (g_arenas x)) (skipn i (m_logs s)) /\
    (exists g0 rest, m_logs s' = g0 :: rest /\ g_ref g0 = 0%N) /\
    m_arenas s' = m_arenas s /\ m_size s' = m_size s.
Proof. exact fossil_keeps_base. Qed.

Theorem C13_restore_after_fossil_finds_a_checkpoint : forall B H AHDR s tgt s' base ref,
  fossil_collect s tgt = Some (s', base) -> exists s'' r, checkpoint_restore B H AHDR s' ref = Some (s'', r).
Proof. exact restore_after_fossil. Qed.

Theorem C13_restore_uses_newest_checkpoint_not_after : forall B H AHDR s ref s' r,
  checkpoint_restore B H AHDR s ref = Some (s', r) ->
  exists i g, nth_error (m_logs s) i = Some g /\ r = g_ref g /\ (g_ref g <= ref)%N /\
    (forall k g', i < k -> nth_error (m_logs s) k = Some g' -> (ref < g_ref g')%N) /\
    m_logs s' = firstn (S i) (m_logs s).
Proof. exact restore_picks_newest. Qed.

Print Assumptions C13_fossil_keeps_base.
Print Assumptions C13_restore_after_fossil_finds_a_checkpoint.
Print Assumptions C13_restore_uses_newest_checkpoint_not_after.
