#!/bin/sh
# MANIFEST.setup_cmd: build the framework from files on disk only (offline).
set -e
cd "$(dirname "$0")"
# no Admitted / admit / Axiom / Parameter / Conjecture / disabled checks anywhere in the development
if grep -rnE '\b(Admitted|admit|Axiom|Axioms|Parameter|Parameters|Conjecture|Conjectures|Admit Obligations|bypass_check|native_compute)\b|Unset Guard Checking|Unset Positivity Checking|Unset Universe Checking|type-in-type|impredicative-set' --include='*.v' coq; then
  echo "forbidden token in the Coq development" >&2; exit 1
fi
cd coq
coq_makefile -f _CoqProject -o Makefile
timeout 3000 make -j16
cd ../ocaml
make
echo "setup done"
